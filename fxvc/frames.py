"""fxvc: modular frame (modifies) analysis of the real chartparse sources.

Per function, every write site (stores through subscripts/attributes, calls of mutating
methods, del, global/nonlocal, setattr/__dict__) is classified by the root of its access path:
  own        a container freshly allocated by this call (or by the enclosing call, for closures)
  self-init  self.<attr> inside __init__ (object under construction)
  param / global / class-attr / unknown   -> violates `modifies nothing the caller can see`
Plus package-level obligations: no module-level or class-level mutable object is ever written,
no mutable default arguments, memoised functions are pure and keyed by all their arguments,
no nondeterministic source, no auto-inserting mapping escapes into returned objects."""
from __future__ import annotations

import ast
import time
import traceback

MUTATORS = {"append", "extend", "insert", "pop", "remove", "clear", "update", "setdefault", "sort", "reverse",
            "add", "discard", "popitem", "__setitem__", "__delitem__", "__setattr__", "appendleft", "popleft"}
ALLOC_CALLS = {"list", "dict", "set", "tuple", "defaultdict", "ParsedDataMap", "_SustainList", "OrderedDict", "deque", "InstrumentTrackMap"}
NONDET = {"random", "uuid", "secrets", "getrandbits", "urandom", "time_ns", "perf_counter", "monotonic", "now", "today", "utcnow", "environ", "getenv", "getpid"}


class Site:
    def __init__(self, func, lineno, text, root, cls):
        self.func, self.lineno, self.text, self.root, self.cls = func, lineno, text, root, cls

    def __repr__(self):
        return f"{self.func}:{self.lineno} `{self.text}` root={self.root} [{self.cls}]"


def is_alloc(node):
    if isinstance(node, (ast.List, ast.Dict, ast.Set, ast.ListComp, ast.DictComp, ast.SetComp)):
        return True
    if isinstance(node, ast.BinOp) and isinstance(node.op, ast.Mult) and (is_alloc(node.left) or is_alloc(node.right)):
        return True
    if isinstance(node, ast.Call):
        f = node.func
        name = f.id if isinstance(f, ast.Name) else (f.attr if isinstance(f, ast.Attribute) else None)
        if name in ALLOC_CALLS:
            # a wrapper around an existing object is not an allocation: list(x) copies, NewType(x) does not
            if name in ("_SustainList", "InstrumentTrackMap"):
                return len(node.args) == 1 and is_alloc(node.args[0])
            return True
        if name and name[:1].isupper() and name not in ("Tick", "Ticks", "Timestamp", "Seconds"):
            return True          # constructor call of a class: a fresh object
    return False


def root_name(node):
    """Root variable of an access path; d.setdefault(k, v)[..] / d.get(k)[..] alias into d."""
    while True:
        if isinstance(node, (ast.Subscript, ast.Attribute)):
            node = node.value
        elif isinstance(node, ast.Call) and isinstance(node.func, ast.Attribute) and node.func.attr in ("setdefault", "get", "__getitem__"):
            node = node.func.value
        else:
            break
    if isinstance(node, ast.Name):
        return node.id
    return None


class FuncFrames:
    def __init__(self, key, node, module, enclosing=None):
        self.key, self.node, self.module, self.enclosing = key, node, module, enclosing
        a = node.args
        self.params = {p.arg for p in a.posonlyargs + a.args + a.kwonlyargs}
        if a.vararg:
            self.params.add(a.vararg.arg)
        if a.kwarg:
            self.params.add(a.kwarg.arg)
        self.own, self.other_locals = set(), set()
        self.sites = []
        self.mutable_defaults = [ast.unparse(d) for d in list(a.defaults) + [d for d in a.kw_defaults if d is not None] if is_alloc(d)]
        self._scan()

    def body_nodes(self):
        """nodes of this function, not descending into nested functions/classes"""
        out = []
        stack = list(self.node.body)
        while stack:
            n = stack.pop()
            if isinstance(n, (ast.FunctionDef, ast.AsyncFunctionDef, ast.ClassDef)):
                continue
            out.append(n)
            for ch in ast.iter_child_nodes(n):
                if isinstance(ch, (ast.FunctionDef, ast.AsyncFunctionDef, ast.ClassDef, ast.Lambda)):
                    if isinstance(ch, ast.Lambda):
                        stack.append(ch)
                    continue
                stack.append(ch)
        return out

    def _scan(self):
        nodes = self.body_nodes()
        assigned_alloc, assigned_other = set(), set()
        for n in nodes:
            if isinstance(n, (ast.Assign, ast.AnnAssign)) and getattr(n, "value", None) is not None:
                targets = n.targets if isinstance(n, ast.Assign) else [n.target]
                for t in targets:
                    if isinstance(t, ast.Name):
                        (assigned_alloc if is_alloc(n.value) else assigned_other).add(t.id)
                    elif isinstance(t, (ast.Tuple, ast.List)):
                        for e in ast.walk(t):
                            if isinstance(e, ast.Name):
                                assigned_other.add(e.id)
            elif isinstance(n, (ast.For, ast.comprehension)):
                for e in ast.walk(n.target):
                    if isinstance(e, ast.Name):
                        assigned_other.add(e.id)
            elif isinstance(n, ast.AugAssign) and isinstance(n.target, ast.Name):
                pass
        self.own = assigned_alloc - assigned_other - self.params
        # a local bound (only ever) to a PART of an owned container - `inner = own.setdefault(k, {})`,
        # `inner = own[k]`, `inner = own.get(k)` - is owned too: writing through it writes into the
        # object this call allocated.  Iterated to a fixed point (parts of parts).
        changed = True
        while changed:
            changed = False
            derived = {}
            for n in nodes:
                if isinstance(n, (ast.Assign, ast.AnnAssign)) and getattr(n, "value", None) is not None:
                    targets = n.targets if isinstance(n, ast.Assign) else [n.target]
                    for t in targets:
                        if isinstance(t, ast.Name):
                            derived.setdefault(t.id, []).append(self._part_of_own(n.value))
            for nm, flags in derived.items():
                if nm not in self.own and nm not in self.params and all(flags) and nm not in {
                        e.id for n in nodes if isinstance(n, (ast.For, ast.comprehension)) for e in ast.walk(n.target) if isinstance(e, ast.Name)}:
                    self.own.add(nm)
                    assigned_other.discard(nm)
                    changed = True
        self.other_locals = assigned_other | self.params
        for n in nodes:
            if isinstance(n, (ast.Assign, ast.AnnAssign, ast.AugAssign)):
                targets = n.targets if isinstance(n, ast.Assign) else [n.target]
                for t in targets:
                    for tt in ([t] if not isinstance(t, (ast.Tuple, ast.List)) else t.elts):
                        if isinstance(tt, (ast.Subscript, ast.Attribute)):
                            self._site(n, tt)
                # `x += [...]` / `x |= {...}` / `x += list(...)`: an in-place update of whatever
                # object x names (list.__iadd__ extends in place), not a re-binding
                if isinstance(n, ast.AugAssign) and isinstance(n.target, ast.Name) and \
                        (is_alloc(n.value) or isinstance(n.value, (ast.Tuple,)) and False):
                    self._site(n, n.target)
            elif isinstance(n, ast.Delete):
                for t in n.targets:
                    if isinstance(t, (ast.Subscript, ast.Attribute)):
                        self._site(n, t)
            elif isinstance(n, (ast.Global, ast.Nonlocal)):
                self.sites.append(Site(self.key, n.lineno, ast.unparse(n), None, "global-statement"))
            elif isinstance(n, ast.Call):
                f = n.func
                if isinstance(f, ast.Attribute) and f.attr in MUTATORS and not self._is_module_expr(f.value):
                    self._site(n, f.value, call=True)
                elif isinstance(f, ast.Name) and f.id in ("setattr", "delattr"):
                    self._site(n, n.args[0] if n.args else f, call=True)
                elif isinstance(f, ast.Attribute) and f.attr in ("__setattr__", "__delattr__"):
                    self._site(n, n.args[0] if n.args else f.value, call=True)
            elif isinstance(n, ast.Attribute) and n.attr == "__dict__" and isinstance(n.ctx, ast.Store):
                self._site(n, n)

    def _part_of_own(self, value):
        """value is own[...] / own.attr-free part / own.setdefault(...) / own.get(...) for an owned root"""
        v = value
        if isinstance(v, ast.Call) and isinstance(v.func, ast.Attribute) and v.func.attr in ("setdefault", "get", "pop"):
            # setdefault(k, default): the default must itself be fresh or a part of an owned object
            if v.func.attr == "setdefault" and len(v.args) >= 2 and not (is_alloc(v.args[1]) or self._part_of_own(v.args[1])):
                return False
            v = v.func.value
        elif isinstance(v, ast.Subscript):
            v = v.value
        else:
            return False
        r = root_name(v)
        return r is not None and r in self.own

    def _is_module_expr(self, node):
        """chartparse.tick.add(...) is a module function, not a mutating method"""
        import types
        try:
            from pyvc.source import live_module
            o = live_module(self.module)
            for part in ast.unparse(node).split("."):
                o = getattr(o, part)
            return isinstance(o, types.ModuleType)
        except Exception:
            return False

    def is_own(self, name):
        f = self
        while f is not None:
            if name in f.own:
                return True
            if name in f.other_locals:
                return False
            f = f.enclosing
        return False

    def is_local(self, name):
        f = self
        while f is not None:
            if name in f.own or name in f.other_locals:
                return True
            f = f.enclosing
        return False

    def _site(self, stmt, target, call=False):
        r = root_name(target)
        fname = self.key.split(":")[1].split(".")[-1]
        if r is None:
            cls = "unknown"
        elif self.is_own(r):
            cls = "own"
        elif r == "self" and fname == "__init__" and isinstance(target, ast.Attribute) and isinstance(target.value, ast.Name):
            cls = "self-init"
        elif r in self.params or (self.is_local(r)):
            cls = "param" if r in self.params else "alias"
        elif r == "cls":
            cls = "class-attr"
        else:
            cls = "global"
        try:
            text = ast.unparse(stmt)
        except Exception:
            text = "?"
        self.sites.append(Site(self.key, stmt.lineno, text[:120], r, cls))

    def violations(self):
        return [s for s in self.sites if s.cls not in ("own", "self-init")]


def analyze(idx):
    """key -> FuncFrames for every function (nested ones linked to their enclosing function)."""
    out = {}
    for key in sorted(idx.funcs, key=lambda k: k.count(".<locals>.")):
        info = idx.funcs[key]
        enc = None
        if ".<locals>." in info.qualname:
            enc = out.get(f"{info.module}:{info.qualname.rsplit('.<locals>.', 1)[0]}")
        out[key] = FuncFrames(key, info.node, info.module, enc)
    return out


def module_mutables(idx):
    """module-level and class-level names bound to mutable objects: (scope, name, text)"""
    res = []
    for mod, tree in idx.trees.items():
        for n in tree.body:
            if isinstance(n, (ast.Assign, ast.AnnAssign)) and getattr(n, "value", None) is not None and is_alloc(n.value):
                for t in (n.targets if isinstance(n, ast.Assign) else [n.target]):
                    if isinstance(t, ast.Name):
                        v = n.value
                        # calls of classes produce objects; typing constructs are not state
                        if isinstance(v, ast.Call) and ast.unparse(v.func).startswith(("typ.", "typing.", "re.", "logging.")):
                            continue
                        res.append((mod, t.id, ast.unparse(n)[:100]))
        for ck, cnode in idx.classes.items():
            if not ck.startswith(mod + ":"):
                continue
            for n in cnode.body:
                if isinstance(n, (ast.Assign, ast.AnnAssign)) and getattr(n, "value", None) is not None and is_alloc(n.value):
                    for t in (n.targets if isinstance(n, ast.Assign) else [n.target]):
                        if isinstance(t, ast.Name):
                            v = n.value
                            if isinstance(v, ast.Call) and ast.unparse(v.func).startswith(("typ.", "typing.", "re.", "logging.", "dataclasses.")):
                                continue
                            res.append((ck, t.id, ast.unparse(n)[:100]))
    return res
