"""fxvc obligations (C17, C19 and the purity assumption behind pyvc's deterministic-result
symbols and memoisation)."""
from __future__ import annotations

import ast
import dataclasses
import functools
import time
import traceback

from pyvc.source import SourceIndex, live_module
from . import frames

READ_ONLY_API = [
    "chartparse.chart:Chart.__getitem__", "chartparse.chart:Chart.notes_per_second", "chartparse.chart:Chart._notes_per_second",
    "chartparse.chart:Chart.__str__", "chartparse.sync:BPMEvents.timestamp_at_tick", "chartparse.sync:BPMEvents.timestamp_at_tick_no_optimize_return",
    "chartparse.sync:BPMEvents._index_of_proximal_event", "chartparse.sync:BPMEvents.__len__", "chartparse.sync:BPMEvents.__getitem__",
    "chartparse.util:DictPropertiesEqMixin.__eq__", "chartparse.util:DictReprMixin.__repr__", "chartparse.util:DictReprTruncatedSequencesMixin.__repr__",
    "chartparse.event:Event.__str__", "chartparse.instrument:NoteEvent.__str__", "chartparse.instrument:InstrumentTrack.__str__",
    "chartparse.instrument:InstrumentTrack.last_note_end_timestamp", "chartparse.instrument:InstrumentTrack.header_tag",
    "chartparse.instrument:NoteEvent.longest_sustain", "chartparse.instrument:NoteEvent.end_tick", "chartparse.instrument:SpecialEvent.end_tick",
    "chartparse.instrument:SpecialEvent.tick_is_during_event", "chartparse.instrument:SpecialEvent.tick_is_after_event",
]
FROZEN = ["chartparse.event:Event", "chartparse.sync:SyncTrack", "chartparse.sync:TimeSignatureEvent", "chartparse.sync:BPMEvent",
          "chartparse.sync:BPMEvents", "chartparse.sync:AnchorEvent", "chartparse.instrument:InstrumentTrack",
          "chartparse.instrument:StarPowerData", "chartparse.instrument:NoteEvent", "chartparse.instrument:SpecialEvent",
          "chartparse.instrument:StarPowerEvent", "chartparse.instrument:TrackEvent", "chartparse.globalevents:GlobalEventsTrack",
          "chartparse.globalevents:GlobalEvent", "chartparse.globalevents:TextEvent", "chartparse.globalevents:SectionEvent",
          "chartparse.globalevents:LyricEvent", "chartparse.metadata:Metadata",
          "chartparse.instrument:NoteEvent.ParsedData", "chartparse.instrument:StarPowerEvent.ParsedData", "chartparse.instrument:TrackEvent.ParsedData",
          "chartparse.sync:BPMEvent.ParsedData", "chartparse.sync:TimeSignatureEvent.ParsedData", "chartparse.sync:AnchorEvent.ParsedData",
          "chartparse.globalevents:TextEvent.ParsedData", "chartparse.globalevents:SectionEvent.ParsedData", "chartparse.globalevents:LyricEvent.ParsedData"]


def ob(name, ok, detail="", model=None, status=None):
    d = {"name": name, "kind": "frame", "status": status or ("discharged" if ok else "refuted"), "backend": "fxvc",
         "seconds": 0.0, "reason": str(detail)[:400]}
    if not ok and status is None:
        d["model"] = model or {"detail": str(detail)[:400]}
    return d


def _cls(path):
    mod, q = path.split(":")
    o = live_module(mod)
    for part in q.split("."):
        o = getattr(o, part)
    return o


_SET_CALLS = ("set", "frozenset")
_ORDER_CONSUMERS = ("list", "tuple", "iter", "next", "enumerate", "zip", "map", "filter", "reversed", "str", "repr", "dict")


def _is_set_expr(n, setnames):
    if isinstance(n, (ast.Set, ast.SetComp)):
        return True
    if isinstance(n, ast.Call) and isinstance(n.func, ast.Name) and n.func.id in _SET_CALLS:
        return True
    if isinstance(n, ast.Name) and n.id in setnames:
        return True
    if isinstance(n, ast.BinOp) and isinstance(n.op, (ast.BitOr, ast.BitAnd, ast.Sub, ast.BitXor)):
        return _is_set_expr(n.left, setnames) or _is_set_expr(n.right, setnames)
    if isinstance(n, ast.Call) and isinstance(n.func, ast.Attribute) and n.func.attr in ("union", "intersection", "difference", "symmetric_difference", "copy") \
            and _is_set_expr(n.func.value, setnames):
        return True
    return False


def _set_order_uses(mod, tree):
    """(iteration-order uses of sets, uses that cannot be classified).  Per function scope: names
    bound to set expressions are tracked (flow-insensitively); a set expression or such a name may
    appear in membership tests, len(), truth tests, set algebra and in-place set updates.  Being
    iterated (for / comprehension / order-consuming builtin / join / pop / unpacking) is a
    nondeterministic source; any other use (returned, stored, passed on) is left undecided."""
    bad, unknown = [], []
    scopes = [n for n in ast.walk(tree) if isinstance(n, (ast.FunctionDef, ast.AsyncFunctionDef, ast.Lambda))] + [tree]
    for sc in scopes:
        body = list(ast.walk(sc))
        setnames = set()
        changed = True
        while changed:
            changed = False
            for n in body:
                tgt = None
                if isinstance(n, ast.Assign) and len(n.targets) == 1 and isinstance(n.targets[0], ast.Name):
                    tgt, val = n.targets[0].id, n.value
                elif isinstance(n, ast.AnnAssign) and isinstance(n.target, ast.Name) and n.value is not None:
                    tgt, val = n.target.id, n.value
                elif isinstance(n, ast.NamedExpr):
                    tgt, val = n.target.id, n.value
                if tgt and tgt not in setnames and _is_set_expr(val, setnames):
                    setnames.add(tgt)
                    changed = True
        parent = {}
        for n in body:
            for ch in ast.iter_child_nodes(n):
                parent[id(ch)] = n
        seen = set()
        for n in body:
            if not _is_set_expr(n, setnames) or id(n) in seen:
                continue
            if isinstance(n, ast.Name) and isinstance(n.ctx, ast.Store):
                continue
            seen.add(id(n))
            p = parent.get(id(n))
            where = f"{mod}:{getattr(n, 'lineno', 0)} {ast.unparse(n)[:40]}"
            if p is None:
                continue
            if isinstance(p, ast.Compare) and n in p.comparators and all(isinstance(o, (ast.In, ast.NotIn)) for o in p.ops):
                continue
            if isinstance(p, ast.Compare):            # ==, <=, ... between sets: order-free
                continue
            if isinstance(p, (ast.Assign, ast.AnnAssign, ast.NamedExpr, ast.AugAssign)):
                continue
            if isinstance(p, ast.BinOp) and _is_set_expr(p, setnames):
                continue
            if isinstance(p, (ast.If, ast.While, ast.BoolOp, ast.IfExp)) or (isinstance(p, ast.UnaryOp) and isinstance(p.op, ast.Not)):
                continue
            if isinstance(p, ast.Expr):
                continue
            if isinstance(p, ast.Attribute) and p.value is n:
                if p.attr in ("add", "update", "discard", "remove", "clear", "issubset", "issuperset", "isdisjoint", "union", "intersection",
                              "difference", "symmetric_difference", "copy", "intersection_update", "difference_update", "__contains__"):
                    continue
                if p.attr == "pop":
                    bad.append(where + " .pop() takes an arbitrary element")
                    continue
                unknown.append(where + f" .{p.attr}")
                continue
            if isinstance(p, ast.Call) and n in p.args:
                fn = p.func
                if isinstance(fn, ast.Name) and fn.id in ("len", "bool", "isinstance", "sorted", "min", "max", "sum", "any", "all", "set", "frozenset"):
                    continue
                if isinstance(fn, ast.Name) and fn.id in _ORDER_CONSUMERS:
                    bad.append(where + f" passed to {fn.id}() (set iteration order)")
                    continue
                if isinstance(fn, ast.Attribute) and fn.attr == "join":
                    bad.append(where + " joined (set iteration order)")
                    continue
                if isinstance(fn, ast.Attribute) and fn.attr in ("update", "union", "intersection", "difference", "issubset", "issuperset", "isdisjoint") :
                    continue
                unknown.append(where + " passed to " + ast.unparse(fn)[:30])
                continue
            if isinstance(p, ast.comprehension) and p.iter is n:
                # iterating a set to build another set / test membership is order-free only if the
                # result is a set or an any()/all()/sum(); conservatively: order use
                gp = None
                for q in body:
                    if isinstance(q, (ast.SetComp, ast.ListComp, ast.GeneratorExp, ast.DictComp)) and p in q.generators:
                        gp = q
                if isinstance(gp, ast.SetComp):
                    continue
                bad.append(where + " iterated (set iteration order)")
                continue
            if isinstance(p, (ast.For, ast.AsyncFor)) and p.iter is n:
                bad.append(where + " iterated (set iteration order)")
                continue
            if isinstance(p, ast.Starred) or (isinstance(p, ast.Assign) and isinstance(p.targets[0], (ast.Tuple, ast.List))):
                bad.append(where + " unpacked (set iteration order)")
                continue
            unknown.append(where + " used in " + type(p).__name__)
    return bad, unknown


def _iterable_params(fnode):
    out = []
    a = fnode.args
    for arg in list(a.posonlyargs) + list(a.args) + list(a.kwonlyargs):
        if arg.annotation is not None:
            t = ast.unparse(arg.annotation)
            if "Iterable" in t or "Iterator" in t or "Generator" in t:
                out.append(arg.arg)
    return out


def _binds(fn, name):
    a = fn.args
    return any(x.arg == name for x in list(a.posonlyargs) + list(a.args) + list(a.kwonlyargs) + ([a.vararg] if a.vararg else []) + ([a.kwarg] if a.kwarg else []))


# parameters that receive the one-shot iterators made by Chart._partition_lines_by_data_section
# (the values of its dict): roots of the propagation below
ONE_SHOT_ROOTS = [("chartparse.metadata:Metadata.from_chart_lines", 1), ("chartparse.sync:SyncTrack.from_chart_lines", 2),
                  ("chartparse.globalevents:GlobalEventsTrack.from_chart_lines", 1), ("chartparse.instrument:InstrumentTrack.from_chart_lines", 3)]


ONE_SHOT_DICT_SOURCES = ("_partition_lines_by_data_section",)


def _param_names(fnode):
    a = fnode.args
    return [x.arg for x in list(a.posonlyargs) + list(a.args)] , [x.arg for x in a.kwonlyargs]


def _one_shot_params(idx):
    """(function key, parameter) pairs that may hold a one-shot iterator: the roots (read from
    from_file's call sites by position) and every package function parameter one of them is
    passed on to as a bare name."""
    seen, work = set(), []
    for key, pos in ONE_SHOT_ROOTS:
        info = idx.funcs.get(key)
        if info is None:
            continue
        posn, _ = _param_names(info.node)
        if pos < len(posn):
            work.append((key, posn[pos]))
    # further roots: any call of a package function with a one-shot iterator expression as argument
    ONE_SHOT_CALLS = ("reversed", "iter", "map", "filter", "zip", "enumerate", "islice", "chain", "groupby", "product")

    def one_shot_expr(e):
        if isinstance(e, ast.GeneratorExp):
            return True
        if isinstance(e, ast.Call):
            fn = e.func.attr if isinstance(e.func, ast.Attribute) else (e.func.id if isinstance(e.func, ast.Name) else None)
            return fn in ONE_SHOT_CALLS
        return False
    for key, info in idx.funcs.items():
        for n in ast.walk(info.node):
            if not isinstance(n, ast.Call):
                continue
            fname = n.func.attr if isinstance(n.func, ast.Attribute) else (n.func.id if isinstance(n.func, ast.Name) else None)
            cands = [k for k in idx.funcs if k.split(":")[1].split(".")[-1] == fname] if fname else []
            if not cands or not any(one_shot_expr(a_) for a_ in list(n.args) + [k_.value for k_ in n.keywords]):
                continue
            owner = key.rsplit(".", 1)[0]
            same = [k for k in cands if k.rsplit(".", 1)[0] == owner] or [k for k in cands if k.split(":")[0] == key.split(":")[0]] or cands
            k = same[0]
            posn, kwn = _param_names(idx.funcs[k].node)
            off = 1 if (posn and posn[0] in ("self", "cls") and isinstance(n.func, ast.Attribute)) else 0
            for i, a_ in enumerate(n.args):
                if one_shot_expr(a_) and i + off < len(posn):
                    work.append((k, posn[i + off]))
            for kw in n.keywords:
                if one_shot_expr(kw.value) and kw.arg in posn + kwn:
                    work.append((k, kw.arg))
    while work:
        key, pn = work.pop()
        if (key, pn) in seen:
            continue
        seen.add((key, pn))
        info = idx.funcs[key]
        for n in ast.walk(info.node):
            if not isinstance(n, ast.Call):
                continue
            fname = n.func.attr if isinstance(n.func, ast.Attribute) else (n.func.id if isinstance(n.func, ast.Name) else None)
            if fname is None:
                continue
            cands = [k for k in idx.funcs if k.split(":")[1].split(".")[-1] == fname]
            # prefer a method of the same class, then the same module
            owner = key.rsplit(".", 1)[0]
            same = [k for k in cands if k.rsplit(".", 1)[0] == owner] or [k for k in cands if k.split(":")[0] == key.split(":")[0]] or cands
            for k in same[:1] if len(same) >= 1 else []:
                posn, kwn = _param_names(idx.funcs[k].node)
                method = posn and posn[0] in ("self", "cls") and isinstance(n.func, ast.Attribute)
                off = 1 if method else 0
                for i, a_ in enumerate(n.args):
                    if isinstance(a_, ast.Name) and a_.id == pn and i + off < len(posn):
                        work.append((k, posn[i + off]))
                for kw in n.keywords:
                    if isinstance(kw.value, ast.Name) and kw.value.id == pn and kw.arg in posn + kwn:
                        work.append((k, kw.arg))
    return sorted(seen)


def _consumptions(fnode, name):
    """(max number of once-only uses of `name` on any path through the body, uses that may
    execute more than once).  A use inside a loop body, a comprehension element, a nested
    function or a lambda may execute several times; if/else branches are exclusive."""
    multi = []

    def names_in(node, skip_nested=True):
        n = 0
        stack = [node]
        while stack:
            x = stack.pop()
            if isinstance(x, (ast.FunctionDef, ast.AsyncFunctionDef, ast.Lambda)) and x is not node:
                inner = 0 if _binds(x, name) else sum(1 for y in ast.walk(x) if isinstance(y, ast.Name) and y.id == name and isinstance(y.ctx, ast.Load))
                if inner:
                    multi.append(f"line {x.lineno}: used inside a nested function (runs once per call of it)")
                continue
            if isinstance(x, (ast.ListComp, ast.SetComp, ast.GeneratorExp, ast.DictComp)):
                # the first generator's iterable is evaluated once; everything else per element
                first = x.generators[0].iter
                n += names_in(first)
                rest = [y for g in x.generators for y in ([g.target] + g.ifs)] + [g.iter for g in x.generators[1:]]
                rest += [x.key, x.value] if isinstance(x, ast.DictComp) else [x.elt]
                for r in rest:
                    if any(isinstance(y, ast.Name) and y.id == name and isinstance(y.ctx, ast.Load) for y in ast.walk(r)):
                        multi.append(f"line {x.lineno}: used per element of a comprehension")
                continue
            if isinstance(x, ast.Name) and x.id == name and isinstance(x.ctx, ast.Load):
                n += 1
            stack.extend(ast.iter_child_nodes(x))
        return n

    def block(stmts):
        total = 0
        for st in stmts:
            if isinstance(st, ast.If):
                total += names_in(st.test) + max(block(st.body), block(st.orelse))
            elif isinstance(st, (ast.For, ast.AsyncFor)):
                total += names_in(st.iter)
                if block(st.body) or block(st.orelse):
                    multi.append(f"line {st.lineno}: used inside a loop body")
            elif isinstance(st, ast.While):
                if names_in(st.test) or block(st.body):
                    multi.append(f"line {st.lineno}: used inside a loop")
            elif isinstance(st, ast.Try):
                total += block(st.body) + max([block(h.body) for h in st.handlers] or [0]) + block(st.orelse) + block(st.finalbody)
            elif isinstance(st, (ast.With, ast.AsyncWith)):
                total += sum(names_in(i.context_expr) for i in st.items) + block(st.body)
            elif isinstance(st, ast.ClassDef):
                pass
            elif isinstance(st, ast.Assign) and len(st.targets) == 1 and isinstance(st.targets[0], ast.Name) and st.targets[0].id == name \
                    and isinstance(st.value, ast.Call) and ast.unparse(st.value.func).endswith("cast") and len(st.value.args) == 2 \
                    and isinstance(st.value.args[1], ast.Name) and st.value.args[1].id == name:
                pass        # `x = typ.cast(T, x)`: identity, not a use
            elif isinstance(st, (ast.FunctionDef, ast.AsyncFunctionDef)):
                inner = 0 if _binds(st, name) else sum(1 for y in ast.walk(st) if isinstance(y, ast.Name) and y.id == name and isinstance(y.ctx, ast.Load))
                if inner:
                    multi.append(f"line {st.lineno}: used inside nested function {st.name} (runs once per call of it)")
            else:
                total += names_in(st)
        return total
    return block(fnode.body), multi


def run(reg, idx, name, timeout_ms=None, seed=0):
    t0 = time.time()
    res = {"name": name, "engine": "fxvc", "status": "ok", "reason": "", "obligations": [], "callees": [], "notes": [],
           "assumptions": ["functools.lru_cache and cached_property are thread-safe and keyed by all arguments (documented library behaviour)",
                           "logging has no effect on program state",
                           "external calls (re, int, len, itertools, dataclasses, enum, timedelta) do not modify their arguments"],
           "seconds": 0.0, "sha": "", "paths": 0}
    try:
        idx = SourceIndex()
        fr = frames.analyze(idx)
        obs = res["obligations"]
        if name.startswith("fx:unit-frames:"):
            # T6 for this property: every function whose contract the property's units carry or use
            # must modify only objects it allocates (else its result could depend on, or change,
            # hidden state, which no pre/postcondition over its arguments can see)
            prop = name.split(":")[-1]
            keys = sorted({c.key for c in reg.all() if prop in c.props})
            for key in keys:
                for k2, f in sorted(fr.items()):
                    if k2 == key or k2.startswith(key + ".<locals>"):
                        bad = f.violations()
                        obs.append(ob(f"fx/{k2}/modifies-only-objects-it-allocates", not bad, "; ".join(map(repr, bad)),
                                      {"write_sites": [repr(s_) for s_ in bad]}))
            if not obs:
                obs.append(ob(f"fx/{prop}/no-function-under-contract", True, "no pyvc unit for this property"))
        elif name == "fx:iterables":
            # A parameter typed Iterable may be a one-shot iterator (Chart.from_file hands
            # itertools.islice objects to the section parsers).  pyvc models such a parameter as a
            # sequence; that is sound only if the function consumes it at most once on every path
            # (materialising it with list() counts as the one use).
            res["assumptions"].append("an Iterable argument yields its items once, in order (itertools.islice over a list: list[a:b])")
            targets = _one_shot_params(idx)
            obs.append(ob("fx/package/one-shot-iterator-parameters-found", len(targets) >= len(ONE_SHOT_ROOTS), targets))
            # values of the dict returned by the section scanner are one-shot iterators too: where a
            # function holds that dict, each value may be consumed once (per loop iteration for the
            # loop variable of `for k, v in d.items()`, once overall for `d[<key>]`)
            for key, info in sorted(idx.funcs.items()):
                dicts = set()
                for n in ast.walk(info.node):
                    if isinstance(n, ast.Assign) and isinstance(n.value, ast.Call) and ast.unparse(n.value.func).split(".")[-1] in ONE_SHOT_DICT_SOURCES:
                        dicts |= {t.id for t in n.targets if isinstance(t, ast.Name)}
                if not dicts:
                    continue
                subs = {}
                for n in ast.walk(info.node):
                    if isinstance(n, ast.Subscript) and isinstance(n.value, ast.Name) and n.value.id in dicts and isinstance(n.ctx, ast.Load):
                        subs[ast.unparse(n)] = subs.get(ast.unparse(n), 0) + 1
                    if isinstance(n, (ast.For, ast.AsyncFor)) and isinstance(n.iter, ast.Call) and isinstance(n.iter.func, ast.Attribute) \
                            and isinstance(n.iter.func.value, ast.Name) and n.iter.func.value.id in dicts and n.iter.func.attr in ("items", "values"):
                        tv = n.target.elts[1] if (n.iter.func.attr == "items" and isinstance(n.target, ast.Tuple) and len(n.target.elts) == 2) else n.target
                        if isinstance(tv, ast.Name):
                            fake = ast.FunctionDef(name="_loop", args=ast.arguments(posonlyargs=[], args=[], kwonlyargs=[], kw_defaults=[], defaults=[]),
                                                   body=n.body, decorator_list=[], lineno=n.lineno)
                            once, multi = _consumptions(fake, tv.id)
                            ok = once <= 1 and not multi
                            obs.append(ob(f"fx/{key}/section-iterator-{tv.id}-consumed-at-most-once-per-iteration", ok,
                                          f"{once} use(s) on one path of the loop body" + ("; " + "; ".join(multi) if multi else ""),
                                          {"variable": tv.id, "uses_on_one_path": once, "repeatable_uses": multi}))
                for text, cnt in sorted(subs.items()):
                    obs.append(ob(f"fx/{key}/section-iterator-{text}-consumed-at-most-once", cnt <= 1, f"{cnt} occurrence(s)", {"expression": text, "occurrences": cnt}))
            for key, pn in targets:
                info = idx.funcs[key]
                if True:
                    once, multi = _consumptions(info.node, pn)
                    ok = once <= 1 and not multi
                    detail = f"{once} use(s) on one path" + ("; " + "; ".join(multi) if multi else "")
                    obs.append(ob(f"fx/{key}/iterable-parameter-{pn}-consumed-at-most-once", ok, detail,
                                  {"parameter": pn, "uses_on_one_path": once, "repeatable_uses": multi}))
        elif name == "fx:frames":
            for key, f in sorted(fr.items()):
                bad = f.violations()
                obs.append(ob(f"fx/{key}/modifies-only-objects-it-allocates", not bad, "; ".join(map(repr, bad)),
                              {"write_sites": [repr(s) for s in bad]}))
                if f.mutable_defaults:
                    obs.append(ob(f"fx/{key}/no-mutable-default-argument", False, f.mutable_defaults))
            obs.append(ob("fx/package/no-mutable-default-argument", not any(f.mutable_defaults for f in fr.values())))
            # module / class level mutable objects are never written
            muts = frames.module_mutables(idx)
            all_sites = [s for f in fr.values() for s in f.sites]
            for scope, nm, text in muts:
                writers = [s for s in all_sites if s.root == nm or (s.text and f".{nm}" in s.text and s.cls != "own")]
                obs.append(ob(f"fx/{scope}/{nm}/never-written", not writers, "; ".join(map(repr, writers)), {"writers": [repr(s) for s in writers]}))
                if ":" in scope:
                    # a class-level mutable object is shared by all instances: no method may hand it
                    # (or parts of it) out, and it must not be an auto-inserting mapping
                    handed = []
                    for key, info in idx.funcs.items():
                        for n in ast.walk(info.node):
                            if isinstance(n, ast.Return) and n.value is not None:
                                for a in ast.walk(n.value):
                                    if isinstance(a, ast.Attribute) and a.attr == nm:
                                        handed.append(f"{key}:{n.lineno}")
                    auto = "defaultdict" in text
                    obs.append(ob(f"fx/{scope}/{nm}/class-level-object-not-shared-through-instances", not handed and not auto,
                                  f"handed out at {handed}; auto-inserting: {auto}", {"returned_at": handed, "definition": text}))
            # module level statements that mutate (outside functions)
            top = []
            for mod, tree in idx.trees.items():
                for n in tree.body:
                    if isinstance(n, (ast.Expr,)) and isinstance(n.value, ast.Call) and isinstance(n.value.func, ast.Attribute) \
                            and n.value.func.attr in frames.MUTATORS:
                        top.append(f"{mod}:{n.lineno} {ast.unparse(n)[:80]}")
            obs.append(ob("fx/package/no-module-level-mutation", not top, top))
            # memoised functions: pure frames, deterministic, keyed by all arguments (functools does that)
            for key, info in sorted(idx.funcs.items()):
                decs = [ast.unparse(d) for d in info.node.decorator_list]
                memo = [d for d in decs if "lru_cache" in d or "cached_property" in d or d.endswith(".cache") or d == "cache"]
                if not memo:
                    continue
                f = fr[key]
                reads = _global_reads(info, idx)
                bad_reads = [r for r in reads if r in {nm for _, nm, _ in muts}]
                ok = not f.sites or all(s.cls == "own" for s in f.sites)
                obs.append(ob(f"fx/{key}/memoised-function-is-pure", ok and not bad_reads,
                              f"writes: {[repr(s) for s in f.sites if s.cls != 'own']} mutable globals read: {bad_reads}"))
                if "lru_cache" in memo[0]:
                    obs.append(ob(f"fx/{key}/memo-keyed-by-all-arguments", "(" not in memo[0] or "typed" in memo[0] or memo[0].endswith("lru_cache") or "maxsize" in memo[0], memo[0]))
            # nondeterminism
            nd, nd_unknown = [], []
            for mod, tree in idx.trees.items():
                for n in ast.walk(tree):
                    if isinstance(n, ast.Attribute) and n.attr in frames.NONDET:
                        nd.append(f"{mod}:{n.lineno} {ast.unparse(n)}")
                    elif isinstance(n, ast.Name) and n.id in frames.NONDET:
                        nd.append(f"{mod}:{n.lineno} {n.id}")
                    elif isinstance(n, ast.Call) and isinstance(n.func, ast.Name) and n.func.id in ("id", "hash"):
                        nd.append(f"{mod}:{n.lineno} {ast.unparse(n)[:40]}")
                a, b = _set_order_uses(mod, tree)
                nd += a
                nd_unknown += b
            obs.append(ob("fx/package/no-nondeterministic-source", not nd, nd))
            # a set (hash order, randomised per process for str/enum keys) that is used for anything
            # but membership tests, size, truth and set algebra: cannot be decided syntactically
            obs.append(ob("fx/package/sets-used-for-membership-only", not nd_unknown, nd_unknown, status=None if not nd_unknown else "undecided"))
            # per-call accumulators
            # the map the dispatcher returns is allocated by the call itself (whatever it is called)
            pdm = fr.get("chartparse.track:parse_data_from_chart_lines")
            info = idx.funcs.get("chartparse.track:parse_data_from_chart_lines")
            if pdm is None or info is None:
                obs.append(ob("fx/chartparse.track:parse_data_from_chart_lines/accumulator-allocated-per-call", False,
                              "function not found (renamed?)", status="undecided"))
            else:
                rets = [n.value for n in ast.walk(info.node) if isinstance(n, ast.Return) and n.value is not None]
                names = [r.id for r in rets if isinstance(r, ast.Name)]
                fresh = [r for r in rets if isinstance(r, ast.Call)]        # `return ParsedDataMap(...)`-style: fresh by construction
                ok = bool(rets) and len(names) + len(fresh) == len(rets) and all(nm in pdm.own for nm in names)
                obs.append(ob("fx/chartparse.track:parse_data_from_chart_lines/accumulator-allocated-per-call", ok,
                              f"returned: {[ast.unparse(r) for r in rets]}; allocated by this call: {sorted(pdm.own)}",
                              status=None if ok or all(isinstance(r, (ast.Name, ast.Call)) for r in rets) else "undecided"))
        elif name == "fx:readonly":
            for key in READ_ONLY_API:
                f = fr.get(key)
                if f is None:
                    obs.append(ob(f"fx/{key}/modifies-nothing", False, "function not found", status="undecided"))
                    continue
                bad = [s for s in f.sites if s.cls != "own"]
                obs.append(ob(f"fx/{key}/modifies-nothing", not bad, "; ".join(map(repr, bad)), {"write_sites": [repr(s) for s in bad]}))
            # an auto-inserting mapping must not reach objects handed to the user
            dd = []
            for key, info in idx.funcs.items():
                for n in ast.walk(info.node):
                    if isinstance(n, ast.Call) and ast.unparse(n.func).endswith("defaultdict"):
                        if key != "chartparse.track:ParsedDataMap.__init__":
                            dd.append(f"{key}:{n.lineno} {ast.unparse(n)[:60]}")
            obs.append(ob("fx/package/no-auto-inserting-mapping-outside-ParsedDataMap", not dd, dd,
                          {"allocation_sites": dd, "note": "a subscript read of a defaultdict inserts: chart[absent] would change the chart"}))
            # ParsedDataMap objects are per-call and never stored in a returned object
            esc = []
            for key, info in idx.funcs.items():
                # names bound to the dispatcher's map in this function (whatever they are called)
                maps = set()
                for n in ast.walk(info.node):
                    if isinstance(n, ast.Assign) and isinstance(n.value, ast.Call) and ast.unparse(n.value.func).endswith("parse_data_from_chart_lines"):
                        maps |= {t.id for t in n.targets if isinstance(t, ast.Name)}
                for n in ast.walk(info.node):
                    if isinstance(n, ast.Call) and not ast.unparse(n.func).endswith("parse_data_from_chart_lines"):
                        for v in list(n.args) + [k.value for k in n.keywords]:
                            if isinstance(v, ast.Name) and v.id in maps:
                                esc.append(f"{key}:{n.lineno} {ast.unparse(n)[:60]}")
                    if isinstance(n, ast.Return) and isinstance(n.value, ast.Name) and n.value.id in maps \
                            and not key.endswith("parse_data_from_chart_lines"):
                        esc.append(f"{key}:{n.lineno} returns the map")
            obs.append(ob("fx/package/ParsedDataMap-does-not-escape", not esc, esc))
            # frozen dataclasses
            for path in FROZEN:
                detail = "frozen dataclass"
                try:
                    c = _cls(path)
                    ok = dataclasses.is_dataclass(c) and c.__dataclass_params__.frozen
                    # the frozen __setattr__ a class inherits from a dataclass parent only guards the
                    # parent's own class and field names: an undecorated subclass accepts new names.
                    # Ground test on a bare instance of the live class: every assignment must raise.
                    inst = object.__new__(c)
                    for nm in [f.name for f in dataclasses.fields(c)][:1] + ["brand_new_attribute"]:
                        try:
                            setattr(inst, nm, 1)
                            ok = False
                            detail = f"assignment to {nm!r} is accepted"
                        except (dataclasses.FrozenInstanceError, AttributeError):
                            pass
                        try:
                            delattr(inst, nm)
                            ok = False
                            detail = f"deletion of {nm!r} is accepted"
                        except (dataclasses.FrozenInstanceError, AttributeError):
                            pass
                except Exception as e:
                    ok = False
                    detail = repr(e)
                obs.append(ob(f"fx/{path}/rejects-attribute-assignment", ok, detail))
            # memo of cached properties is outside equality / repr / hash
            util = live_module("chartparse.util")
            import inspect
            pkg_classes = []
            for m in ("chart", "sync", "instrument", "globalevents", "metadata", "track", "event"):
                mod = live_module("chartparse." + m)
                for _, c in inspect.getmembers(mod, inspect.isclass):
                    if c.__module__.startswith("chartparse") and c not in pkg_classes:
                        pkg_classes.append(c)
                        for _, c2 in inspect.getmembers(c, inspect.isclass):
                            if c2.__module__.startswith("chartparse") and c2 not in pkg_classes and c2.__qualname__.startswith(c.__qualname__ + "."):
                                pkg_classes.append(c2)
            for c in pkg_classes:
                cps = [n for k in c.__mro__ for n, v in k.__dict__.items() if isinstance(v, functools.cached_property)]
                if not cps:
                    continue
                eq_ok = c.__eq__ is not util.DictPropertiesEqMixin.__eq__      # dataclass-generated field comparison
                obs.append(ob(f"fx/{c.__module__}:{c.__qualname__}/cached-properties-outside-equality", eq_ok, f"cached: {cps}"))
                rp = c.__repr__
                rp_ok = rp is util.DictReprMixin.__repr__ or rp is util.DictReprTruncatedSequencesMixin.__repr__ or "__create_fn__" in getattr(rp, "__qualname__", "")
                obs.append(ob(f"fx/{c.__module__}:{c.__qualname__}/cached-properties-outside-repr", rp_ok or dataclasses.is_dataclass(c), f"repr: {rp}"))
        else:
            raise KeyError(name)
    except Exception as e:
        res["status"] = "error"
        res["reason"] = "".join(traceback.format_exception(e))[-1500:]
    res["seconds"] = time.time() - t0
    return res


def _global_reads(info, idx):
    names = set()
    for n in ast.walk(info.node):
        if isinstance(n, ast.Name) and isinstance(n.ctx, ast.Load):
            names.add(n.id)
    return names
