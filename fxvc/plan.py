def units_for(prop, reg, tier):
    u = []
    if prop in ("C17", "C13"):
        u.append(("fxvc.obl:run", "fx:frames"))
    if prop == "C19":
        u += [("fxvc.obl:run", "fx:readonly"), ("fxvc.obl:run", "fx:frames")]
    if prop in ("C01", "C02", "C06", "C07", "C08", "C09", "C10", "C11", "C12", "C14", "C15"):
        # the section parsers receive one-shot iterators: each must consume its lines once
        u.append(("fxvc.obl:run", "fx:iterables"))
    if prop not in ("C17", "C13", "C19") and any(prop in c.props for c in reg.all()):
        # T6 per property: the frames of the functions this property's contracts are about
        u.append(("fxvc.obl:run", f"fx:unit-frames:{prop}"))
    return u
