"""Native side of the verdict protocol: replay of solver counter-models against the REAL code and
the bounded stand-in (random small inputs checked against the same contract text).

The contract expressions are evaluated by a small interpreter with exact arithmetic (Fractions),
mirroring contracts/specs.py: SEC is the real tick.seconds_from_ticks_at_bpm, TDF the real
datetime.timedelta, RN the correctly rounded float of an exact rational, rxm/rxg the real `re`.
Clauses that mention ghost results or opaque predicates are not natively evaluable and skipped."""
from __future__ import annotations

import ast
import datetime
import os
import random
import time
from fractions import Fraction

from pyvc import values as V
from pyvc.values import (IntS, BoolS, RealS, StrS, TdS, NoneS, OptS, TupS, RecS, SeqS, EnumS, UnionS, MapS, ConcS)
from pyvc.contract import Conc, MapOf
from pyvc.source import live_module

U = Fraction(1, 2**53)


class NotEvaluable(Exception):
    pass


def live_class(key):
    mod, q = key.split(":")
    o = live_module(mod)
    for part in q.split("."):
        o = getattr(o, part)
    return o


def fn_of_key(key):
    """(callable ready to be applied to the contract's parameters, is_method)"""
    mod, q = key.split(":")
    o = live_module(mod)
    parts = q.split(".")
    owner = None
    for part in parts:
        owner = o
        o = getattr(o, part) if not isinstance(o, dict) else o[part]
    return owner, o


# ---------------------------------------------------------------------- building values
def build(shape, j):
    if isinstance(shape, IntS):
        if not isinstance(j, int):
            raise NotEvaluable("non-integer model value")
        return j
    if isinstance(shape, BoolS):
        return bool(j)
    if isinstance(shape, RealS):
        if isinstance(j, dict) and "real" in j:
            return float(Fraction(j["real"]))
        return float(j)
    if isinstance(shape, StrS):
        return j if isinstance(j, str) else str(j)
    if isinstance(shape, TdS):
        return datetime.timedelta(microseconds=int(j))
    if isinstance(shape, NoneS):
        return None
    if isinstance(shape, OptS):
        return None if j is None else build(shape.inner, j)
    if isinstance(shape, TupS):
        items = j["tuple"] if isinstance(j, dict) else j
        return tuple(build(s, x) for s, x in zip(shape.items, items))
    if isinstance(shape, SeqS):
        items = j["seq"] if isinstance(j, dict) else j
        return [build(shape.elem, x) for x in items]
    if isinstance(shape, EnumS):
        cls = live_class(shape.key)
        v = j["value"] if isinstance(j, dict) and "value" in j else j
        v = build(shape.value_shape, v)
        return cls(v)
    if isinstance(shape, RecS):
        cls = live_class(shape.key)
        fields = j["fields"] if isinstance(j, dict) and "fields" in j else j
        o = object.__new__(cls)
        for k, s in shape.fields.items():
            object.__setattr__(o, k, build(s, fields[k]))
        return o
    if isinstance(shape, UnionS):
        last = None
        for alt in shape.alts:
            try:
                return build(alt, j)
            except Exception as e:
                last = e
        raise NotEvaluable(f"union value {j!r}: {last}")
    raise NotEvaluable(f"cannot build {shape}")


# ---------------------------------------------------------------------- spec interpreter
class Spec:
    def __init__(self, reg, contract, env):
        self.reg, self.c, self.env = reg, contract, dict(env)
        self.mod = live_module(contract.key.split(":")[0])

    def ev(self, text):
        return self.e(ast.parse(text.strip(), mode="eval").body, self.env)

    def truth(self, text):
        return bool(self.ev(text))

    def e(self, n, env):
        m = getattr(self, "n_" + n.__class__.__name__, None)
        if m is None:
            raise NotEvaluable(n.__class__.__name__)
        return m(n, env)

    def n_Constant(self, n, env):
        return Fraction(n.value) if isinstance(n.value, float) else n.value

    def n_Name(self, n, env):
        if n.id in env:
            return env[n.id]
        if n.id in SPECFNS:
            return ("specfn", n.id)
        if n.id.startswith("g_") or n.id == "_warnings" or n.id == "_it":
            raise NotEvaluable("ghost " + n.id)
        if hasattr(self.mod, n.id):
            return getattr(self.mod, n.id)
        import builtins
        if hasattr(builtins, n.id):
            return getattr(builtins, n.id)
        raise NotEvaluable("name " + n.id)

    def n_Attribute(self, n, env):
        v = self.e(n.value, env)
        if v is None:
            raise NotEvaluable("attribute of None")
        return num(getattr(v, n.attr))

    def n_Subscript(self, n, env):
        v = self.e(n.value, env)
        if isinstance(n.slice, ast.Slice):
            raise NotEvaluable("slice")
        i = self.e(n.slice, env)
        if isinstance(i, Fraction):
            i = int(i)
        if hasattr(v, "events") and not isinstance(v, (list, tuple, dict)):
            v = v.events
        if isinstance(i, int) and isinstance(v, (list, tuple)) and not (0 <= i < len(v)):
            raise IndexOutside()
        return num(v[i])

    def n_Tuple(self, n, env):
        return tuple(self.e(x, env) for x in n.elts)

    def n_UnaryOp(self, n, env):
        v = self.e(n.operand, env)
        if isinstance(n.op, ast.Not):
            return not v
        if isinstance(n.op, ast.USub):
            return -v
        return v

    def n_BoolOp(self, n, env):
        if isinstance(n.op, ast.And):
            r = True
            for x in n.values:
                r = self.e(x, env)
                if not r:
                    return False
            return r
        for x in n.values:
            r = self.e(x, env)
            if r:
                return True
        return False

    def n_IfExp(self, n, env):
        return self.e(n.body, env) if self.e(n.test, env) else self.e(n.orelse, env)

    def n_Compare(self, n, env):
        left = self.e(n.left, env)
        for op, rn in zip(n.ops, n.comparators):
            right = self.e(rn, env)
            if isinstance(op, ast.Is):
                ok = left is right
            elif isinstance(op, ast.IsNot):
                ok = left is not right
            elif isinstance(op, ast.In):
                ok = left in right
            elif isinstance(op, ast.NotIn):
                ok = left not in right
            else:
                a, b = cmpval(left), cmpval(right)
                ok = {ast.Eq: lambda: a == b, ast.NotEq: lambda: a != b, ast.Lt: lambda: a < b, ast.LtE: lambda: a <= b,
                      ast.Gt: lambda: a > b, ast.GtE: lambda: a >= b}[type(op)]()
            if not ok:
                return False
            left = right
        return True

    def n_BinOp(self, n, env):
        a, b = self.e(n.left, env), self.e(n.right, env)
        if isinstance(a, datetime.timedelta) or isinstance(b, datetime.timedelta):
            return {ast.Add: lambda: a + b, ast.Sub: lambda: a - b}[type(n.op)]()
        a, b = num(a), num(b)
        if isinstance(n.op, ast.Add):
            return a + b
        if isinstance(n.op, ast.Sub):
            return a - b
        if isinstance(n.op, ast.Mult):
            return a * b
        if isinstance(n.op, ast.Div):
            if b == 0:
                raise IndexOutside()
            return Fraction(a) / Fraction(b)
        if isinstance(n.op, ast.FloorDiv):
            return a // b
        if isinstance(n.op, ast.Mod):
            return a % b
        if isinstance(n.op, ast.Pow):
            return a ** b
        raise NotEvaluable("binop")

    def n_Lambda(self, n, env):
        names = [a.arg for a in n.args.args]

        def f(*args):
            e2 = dict(env)
            e2.update(zip(names, args))
            return self.e(n.body, e2)
        return f

    def n_GeneratorExp(self, n, env):
        g = n.generators[0]
        it = self.e(g.iter, env)
        if hasattr(it, "events") and not isinstance(it, (list, tuple)):
            it = it.events
        out = []
        for x in it:
            e2 = dict(env)
            if isinstance(g.target, ast.Name):
                e2[g.target.id] = x
            else:
                raise NotEvaluable("generator target")
            if all(self.e(c, e2) for c in g.ifs):
                out.append(self.e(n.elt, e2))
        return out

    def n_Call(self, n, env):
        f = self.e(n.func, env)
        if isinstance(f, tuple) and f and f[0] == "specfn" and f[1] == "implies" and len(n.args) == 2:
            # the consequent is only meaningful (and only evaluated) when the antecedent holds
            if not self.e(n.args[0], env):
                return True
            return bool(self.e(n.args[1], env))
        args = [self.e(a, env) for a in n.args]
        if isinstance(f, tuple) and f and f[0] == "specfn":
            return SPECFNS[f[1]](self, *args)
        if f in (len, sum, max, min, abs, isinstance, tuple, list, any, all):
            if f is len and hasattr(args[0], "events") and not isinstance(args[0], (list, tuple, str, dict)):
                return len(args[0].events)
            return f(*args)
        raise NotEvaluable(f"call {f!r}")


class IndexOutside(Exception):
    """a contract expression read outside a sequence: the clause is unspecified there"""


def num(v):
    if isinstance(v, bool):
        return v
    if isinstance(v, float):
        return Fraction(v)
    return v


def cmpval(v):
    if isinstance(v, float):
        return Fraction(v)
    import enum
    if isinstance(v, enum.Enum):
        return v
    if isinstance(v, tuple):
        return tuple(cmpval(x) for x in v)
    return v


def _events(be):
    return be.events


def gov(be, t):
    g = None
    for k, e in enumerate(be.events):
        if e.tick <= t:
            g = k
    if g is None:
        raise IndexOutside()
    return g


def TS(be, t):
    import chartparse.tick
    g = gov(be, t)
    e = be.events[g]
    return e.timestamp + datetime.timedelta(seconds=chartparse.tick.seconds_from_ticks_at_bpm(int(t) - e.tick, e.bpm, be.resolution))


def sp_forall(sp, lo, hi, f):
    for k in range(int(lo), int(hi)):
        try:
            if not f(k):
                return False
        except IndexOutside:
            continue
    return True


def sp_exists(sp, lo, hi, f):
    for k in range(int(lo), int(hi)):
        try:
            if f(k):
                return True
        except IndexOutside:
            continue
    return False


def _rx(key):
    if not isinstance(key, str):
        return key
    attr = "_regex_prog"
    if "#" in key:
        key, attr = key.split("#")
    return getattr(live_class(key), attr)


def _tag(sp, v):
    if v is None:
        return 2
    if isinstance(v, datetime.timedelta):
        return 0
    if isinstance(v, tuple):
        return 1
    if isinstance(v, int):
        # ComplexSustain: int is alternative 0; notes_per_second bounds: int is alternative 1
        return 1 if sp.c.key.endswith("notes_per_second") else 0
    raise NotEvaluable("tag")


class RefRaises(Exception):
    """the reference computation named by a contract clause raises on this input"""


def _fn_result(sp, name, *args):
    try:
        return _fn_result0(sp, name, *args)
    except (NotEvaluable, IndexOutside):
        raise
    except Exception as e:
        raise RefRaises(f"{name} raises {type(e).__name__}: {e}")


def _fn_result0(sp, name, *args):
    c = sp.reg.by_name(name)
    owner, f = fn_of_key(c.key)
    import functools
    raw = owner.__dict__.get(c.key.split(".")[-1]) if hasattr(owner, "__dict__") else None
    if isinstance(raw, functools.cached_property):
        return raw.func(*args)
    if isinstance(raw, staticmethod):
        return raw.__func__(*args)
    return f(*args)


def _sec(sp, d, b, r):
    import chartparse.tick
    return Fraction(chartparse.tick.seconds_from_ticks_at_bpm(int(d), float(b), int(r)))


def _field(name):
    return live_module("chartparse.metadata")._field_parsing_specs[name].regex_prog


SPECFNS = {
    "implies": lambda sp, a, b: (not a) or bool(b),
    "iff": lambda sp, a, b: bool(a) == bool(b),
    "forall": sp_forall, "exists": sp_exists,
    "SEC": _sec,
    "TDF": lambda sp, f: datetime.timedelta(seconds=float(f)),
    "us": lambda sp, n: datetime.timedelta(microseconds=int(n)),
    "micros": lambda sp, t: (t.days * 86400 + t.seconds) * 10**6 + t.microseconds,
    "real": lambda sp, x: Fraction(x), "xdiv": lambda sp, a, b: Fraction(a) / Fraction(b), "xmul": lambda sp, a, b: Fraction(a) * Fraction(b),
    "xsub": lambda sp, a, b: Fraction(a) - Fraction(b), "xadd": lambda sp, a, b: Fraction(a) + Fraction(b),
    "absr": lambda sp, a: abs(Fraction(a)), "U": lambda sp: U,
    "RN": lambda sp, x: Fraction(float(Fraction(x))),
    "round3": lambda sp, x: Fraction(round(float(x), 3)),
    "pyint": lambda sp, s: int(s), "pow2": lambda sp, n: 2 ** int(n),
    "decok": lambda sp, s: s.isdigit() if isinstance(s, str) else False,
    "rxm": lambda sp, k, line: _rx(k).match(line) is not None,
    "rxg": lambda sp, k, i, line: (_rx(k).match(line) or _raise()).group(int(i)),
    "rxg_none": lambda sp, k, i, line: (_rx(k).match(line) or _raise()).group(int(i)) is None,
    "fieldm": lambda sp, f, line: _field(f).match(line) is not None,
    "fieldg": lambda sp, f, line: (_field(f).match(line) or _raise()).group(1),
    "sorted_ticks": lambda sp, be: all(a.tick < b.tick for a, b in zip(be.events, be.events[1:])),
    "gov": lambda sp, be, t: gov(be, t), "TS": lambda sp, be, t: TS(be, t),
    "ENV": lambda sp, be: be.resolution <= 10**15 and all(-10**15 <= e.tick <= 10**15 and e.bpm <= 10**9 and (e.bpm <= 0 or 1024 * e.bpm >= 1) for e in be.events),
    "WF": lambda sp, be: _wf(be),
    "tag": _tag, "alt": lambda sp, u, i: u,
    "fn_result": _fn_result, "same": lambda sp, a, b: a == b,
    "forall_key_absent": lambda sp, m: len(m) == 0,
    "opaque": lambda sp, *a: _not_evaluable(), "callee_ghost": lambda sp, *a: _not_evaluable(),
    "slice": lambda sp, s, lo, hi: s[int(lo):int(hi)], "append": lambda sp, s, x: list(s) + [x], "empty_ints": lambda sp: [],
}


def _raise():
    raise IndexOutside()


def _not_evaluable():
    raise NotEvaluable("opaque/ghost")


def _wf(be):
    import chartparse.tick
    ev = be.events
    if not (be.resolution >= 1 and len(ev) >= 1 and ev[0].tick == 0 and ev[0].timestamp == datetime.timedelta(0)):
        return False
    for k in range(len(ev) - 1):
        if not (ev[k].tick < ev[k + 1].tick and ev[k].bpm > 0):
            return False
        want = ev[k].timestamp + datetime.timedelta(seconds=chartparse.tick.seconds_from_ticks_at_bpm(ev[k + 1].tick - ev[k].tick, ev[k].bpm, be.resolution))
        if ev[k + 1].timestamp != want:
            return False
    return all(e._proximal_bpm_event_index == k for k, e in enumerate(ev))


# ---------------------------------------------------------------------- running one input
def call_real(c, args):
    """Call the real function under contract c with the built arguments (dict param -> value)."""
    import functools
    owner, f = fn_of_key(c.key)
    name = c.key.split(".")[-1].split(":")[-1]
    raw = owner.__dict__.get(name) if hasattr(owner, "__dict__") and not isinstance(owner, dict) else None
    params = [p for p in c.params]
    vals = []
    for p in params:
        sh = c.params[p]
        vals.append(sh.get() if isinstance(sh, Conc) else args[p])
    if isinstance(raw, functools.cached_property):
        return raw.func(*vals)
    if isinstance(raw, (classmethod, staticmethod)):
        target = raw.__func__
    elif raw is not None and callable(raw) and not isinstance(raw, type):
        target = raw
    else:
        target = f
    if hasattr(target, "__wrapped__"):
        target = target.__wrapped__
    import inspect
    try:
        sig = inspect.signature(target)
        kwonly = {n for n, q in sig.parameters.items() if q.kind is inspect.Parameter.KEYWORD_ONLY}
    except (TypeError, ValueError):
        kwonly = set()
    pos = [v for p, v in zip(params, vals) if p not in kwonly]
    kw = {p: v for p, v in zip(params, vals) if p in kwonly}
    return target(*pos, **kw)


def check_input(reg, c, args):
    """Run the real function on args and evaluate the contract natively.
    Returns None (all evaluable clauses hold / input outside the precondition) or a failure dict."""
    env = dict(args)
    for p, sh in c.params.items():
        if isinstance(sh, Conc):
            env[p] = sh.get()
    sp = Spec(reg, c, env)
    try:
        for name, text in c.requires:
            if not sp.truth(text):
                return None
    except (NotEvaluable, IndexOutside):
        return None
    except Exception:
        return None
    if c.native_oracle is not None:
        try:
            f = c.native_oracle(reg, c, dict(env), lambda: call_real(c, args))
        except Exception:
            f = None
        if f is not None:
            return f
    try:
        result = call_real(c, args)
        raised = None
    except Exception as e:
        result, raised = None, e
    if raised is not None:
        en = type(raised).__name__
        for exc, cond in list(c.raises.items()) + list(c.raise_allowed.items()):
            if isinstance(raised, _exc(exc)):
                try:
                    if cond is not None and not sp.truth(cond):
                        return {"clause": f"raises {exc} only when: {cond}", "observed": f"raised {en}: {raised}"[:300]}
                except (NotEvaluable, IndexOutside):
                    pass
                return None
        if any(isinstance(raised, _exc(e)) for e in c.may_raise):
            return None
        return {"clause": "no other exception escapes", "observed": f"raised {en}: {raised}"[:300]}
    sp.env["result"] = result
    prop = os.environ.get("VERIF_CURRENT_PROP")
    for exc, cond in c.raises.items():
        if not c.clause_relevant("must-raise/" + exc, prop):
            continue
        try:
            if sp.truth(cond):
                return {"clause": f"must raise {exc} when: {cond}", "observed": f"returned {result!r}"[:300]}
        except (NotEvaluable, IndexOutside):
            pass
    for cond in c.must_raise:
        if not c.clause_relevant("must-raise/", prop):
            continue
        try:
            if sp.truth(cond):
                return {"clause": f"must raise when: {cond}", "observed": f"returned {result!r}"[:300]}
        except (NotEvaluable, IndexOutside):
            pass
    for name, text in c.ensures:
        if name.startswith("def:"):
            continue
        if not c.clause_relevant(name, prop):
            continue        # the clause carries another property's statement (Contract.clause_props)
        try:
            if not sp.truth(text):
                return {"clause": f"{name}: {text}"[:600], "observed": f"result {result!r}"[:400]}
        except (NotEvaluable, IndexOutside):
            continue
        except RefRaises as e:
            return {"clause": f"{name}: {text}"[:600], "observed": f"returned {result!r} although {e}"[:400]}
        except Exception as e:
            continue
    return None


def _exc(name):
    import builtins
    if hasattr(builtins, name):
        return getattr(builtins, name)
    return getattr(live_module("chartparse.exceptions"), name)


def repr_args(args):
    return {k: repr(v)[:800] for k, v in args.items()}


# ---------------------------------------------------------------------- replay of a solver model
def replay_model(reg, unit, ob):
    eng = unit.get("engine")
    if eng == "rxvc":
        return replay_rx(unit, ob)
    if eng == "fxvc":
        from . import native_frames
        return native_frames.replay(unit["name"], ob["name"])
    if eng != "pyvc" or not ob.get("model"):
        return False, "no native replay for this kind of obligation"
    c = reg.by_name(unit["name"])
    args = {}
    try:
        for p, sh in c.params.items():
            if isinstance(sh, Conc):
                continue
            if p not in ob["model"]:
                return False, f"model lacks {p}"
            args[p] = build(sh, ob["model"][p])
    except Exception as e:
        return False, f"model is not a well-typed input: {e!r}"[:200]
    try:
        fail = check_input(reg, c, args)
    except Exception as e:
        return False, f"replay harness error: {e!r}"[:200]
    if fail is None:
        return False, "the model does not reproduce natively (inductive or abstracted obligation)"
    fail["input"] = repr_args(args)
    return True, fail


def replay_rx(unit, ob):
    import re
    m = ob.get("model") or {}
    name = ob["name"]
    from rxvc import specs as rs, obl
    try:
        if unit["name"].startswith("rx-recogniser:"):
            k = unit["name"].split(":", 1)[1]
            prog = re.compile(rs.pat_of(rs.RECOGNISERS()[k]["path"]))
        elif unit["name"].startswith("rx-field:"):
            f = unit["name"].split(":", 1)[1]
            prog = _field(f)
        elif unit["name"] == "rx-header:tag":
            prog = live_module("chartparse.chart").Chart._header_tag_regex_prog
        else:
            prog = None
        line = m.get("line")
        if "/shape/" in name and prog is not None and line is not None:
            ok = prog.match(line) is not None
            return ok, {"line": line, "observed": "the real pattern accepts this line, which is not of the stated shape" if ok else "not accepted natively"}
        if "accepts-every-line" in name and prog is not None and line is not None:
            ok = prog.match(line) is None
            return ok, {"line": line, "observed": "the real pattern rejects this line of the stated form" if ok else "accepted natively"}
        if "/capture/" in name and prog is not None and "marked" in m:
            w = m["marked"]
            a, b = w.find(obl.L_), w.find(obl.R_)
            intended = "".join(ch for ch in w[a + 1:b] if ch not in obl.MARKS) if 0 <= a < b else None
            g = None
            import re as _re
            mg = _re.search(r"group(\d+)", name)
            real = prog.match(line)
            if mg and real is not None and intended is not None:
                got = real.group(int(mg.group(1)))
                ok = got != intended
                return ok, {"line": line, "group": int(mg.group(1)), "intended": intended, "observed": got}
            if real is not None and intended is not None:
                return True, {"line": line, "observed": f"groups {real.groups()!r}", "note": "a non-capturing item takes text that belongs to a neighbour"}
        if "/disjoint/" in name and line is not None:
            return True, {"line": line, "observed": m.get("note", "")}
    except Exception as e:
        return False, f"rx replay error: {e!r}"[:200]
    return False, "no native replay for this regex obligation"


# ---------------------------------------------------------------------- bounded stand-in: random small inputs
POOL_INT = [0, 0, 1, 1, 2, 3, 4, 5, 7, 64, 65, 67, 96, 100, 191, 192, 193, 200, 400, 480, 850, 900, 1000, -1]
LINES = ["0 = N 0 0", "0 = N 1 10", "0 = N 7 5", "0 = N 5 0", "0 = N 6 0", "96 = N 2 0", "96 = N 4 30", "192 = N 3 0", "  64 = S 2 100", "64 = S 64 10",
         "0 = E solo", "10 = E soloend", "0 = B 120000", "192 = B 60000", "384 = B 0", "0 = TS 4", "0 = TS 3 3", "0 = A 1000", "garbage", "",
         '0 = E "lyric la"', '5 = E "section Intro"', '7 = E "text here"', "0 = N 8 0", "192 = N 0 0\t", 'Name = "x"', "Resolution = 192", "Offset = 0",
         "Player2 = bass", 'Genre = "rock"']


# ---- lines written from the statements of C07-C10 (grammar-based; the fixed corpus above stays in the mix)
PAD = ["", "", "  ", " ", "\t", "   "]
TICKS = ["0", "0", "5", "7", "96", "192", "00192", "768", "1536", "99999999"]     # at most 8 digits (the statement's practical bounds; beyond them timedelta overflows)
WORDS = ["solo", "soloend", "2", "007", "x2", "\u00c4\u00d6", "a_b", "two words", "", "\u00b2", "ENABLE_CHART_DYNAMICS", "E", "N", "{}", "{solo}", "%s", "{0}"]
TEXTS = ["la", "Hel-", "Intro", "Verse 1", "Oh", "Wow", "  padded  ", 'say "hi"', '"', "na\u00efve \u00e9t\u00e9", "123", "", " ", "lyric x", "section y",
         "phrase_start", "phrase_end", "idle", "a = b", "Offset = 5", "crowd_{}", "Verse {1}", "{oh}", "100%", "%(x)s", "{", "}"]
FIELDS = ["Name", "Artist", "Charter", "Album", "Year", "Offset", "Resolution", "Player2", "Difficulty", "PreviewStart", "PreviewEnd", "Genre",
          "MediaType", "MusicStream", "GuitarStream", "RhythmStream", "BassStream", "DrumStream", "Drum2Stream", "Drum3Stream", "Drum4Stream",
          "VocalStream", "KeysStream", "CrowdStream"]


def gen_line(rnd, flavour=None, tick=None, fields=None):
    t = tick if tick is not None else rnd.choice(TICKS)
    f = flavour or rnd.choice(["instrument", "sync", "events", "song", "junk"])
    num = lambda: rnd.choice(["0", "1", "2", "4", "10", "96", "192", "0096", "1118", "120000", "60000", "99999999"])
    if f == "instrument":
        k = rnd.random()
        if k < 0.45:
            body = f"N {rnd.choice('0123456701234567089')} {num()}"
        elif k < 0.65:
            body = f"S {rnd.choice(['2', '2', '2', '64', '1'])} {num()}"
        else:
            body = f"E {rnd.choice(WORDS)}"
    elif f == "sync":
        k = rnd.random()
        body = f"B {num()}" if k < 0.4 else (f"TS {num()}" if k < 0.6 else (f"TS {num()} {rnd.choice(['0', '1', '2', '3', '10'])}" if k < 0.8 else f"A {num()}"))
    elif f == "events":
        k = rnd.random()
        x = rnd.choice(TEXTS)
        if rnd.random() < 0.4:
            # composed text: words, inner quotes and irregular white space in any arrangement (seeded C09e
            # collapses white space in what a quote-parity split takes for the unquoted parts of the line)
            x = "".join(rnd.choice(["oh", "no", "12", "Caf\u00e9", '"', '"', " ", " ", "  ", "\t", "\u00a0", "=", "E"]) for _ in range(rnd.randrange(1, 8)))
        body = 'E "' + (("lyric " + x) if k < 0.35 else (("section " + x) if k < 0.65 else (x if k < 0.9 else rnd.choice(["lyric" + x, "section" + x, "Lyric " + x])))) + '"'
    elif f == "song":
        fld = rnd.choice(fields or FIELDS)
        v = rnd.choice(TEXTS + ["0", "192", "480", "bass", "rhythm", "guitar", "rock"])
        q = rnd.random()
        line = f"{fld} = " + (f'"{v}"' if q < 0.6 else v)
        return rnd.choice(PAD) + line + rnd.choice(PAD)
    else:
        return rnd.choice(["garbage", "", "{", "}", "[Song]", "0 = X 1", "= N 0 0", "0 = N", "0 N 0 0", "0 = E", '0 = E "', "0=N 0 0"])
    return rnd.choice(PAD) + f"{t} = {body}" + rnd.choice(PAD)


def gen_lines(rnd):
    """the body of one section: one flavour (sometimes mixed), few distinct ticks (so that several lines of
    one kind share a tick), mostly in non-decreasing tick order"""
    f = rnd.choice(["instrument", "sync", "events", "events", "song", None])
    n = rnd.choice([0, 1, 2, 3, 4, 6, 8])
    pool = sorted(rnd.sample([0, 5, 7, 96, 192, 768, 1536], 3))
    ticks = sorted(rnd.choice(pool) for _ in range(n)) if rnd.random() < 0.75 else [rnd.choice(pool) for _ in range(n)]
    out = []
    # a [Song] body over a few fields only, so that a field is written more than once (first line wins)
    few = rnd.sample(FIELDS, rnd.choice([2, 3, 4])) + ["Resolution"] if f == "song" and rnd.random() < 0.7 else None
    for tk in ticks:
        out.append(rnd.choice(LINES) if rnd.random() < 0.1 else gen_line(rnd, f if rnd.random() < 0.9 else None, str(tk), few))
    return out


# validators (__post_init__ units): `self` is built field by field without running the constructors, so that
# the invalid cases the validator must reject are generated at all (the special generators above build
# well-formed objects with the real constructors)
RAW_TOP = False


def gen(shape, rnd, depth=0):
    if isinstance(shape, SeqS) and isinstance(shape.elem, StrS) and rnd.random() < 0.7:
        return gen_lines(rnd)
    if isinstance(shape, StrS) and rnd.random() < 0.6:
        return gen_line(rnd)
    if isinstance(shape, SeqS) and isinstance(shape.elem, RecS) and shape.elem.key == "chartparse.sync:BPMEvent.ParsedData" and rnd.random() < 0.6:
        # the tempo lines of one section: few distinct tempo values (so that a line RESTATES the tempo in
        # effect), ticks mostly increasing, sometimes equal or out of order (seeded C11e accepts an
        # out-of-order line after a restated tempo)
        import chartparse.chart  # noqa
        from chartparse.sync import BPMEvent
        pool = rnd.sample([120000, 60000, 90000, 0, 147253], 2)
        out, tick = [], rnd.choice([0, 0, 0, 5])
        for _ in range(rnd.choice([0, 1, 2, 3, 4, 5])):
            out.append(BPMEvent.ParsedData(tick=tick, raw_bpm=str(rnd.choice(pool))))
            tick = max(0, tick + rnd.choice([96, 384, 384, 1, 0, -96, -384]))
        return out
    if isinstance(shape, IntS):
        return rnd.choice(POOL_INT) if rnd.random() < 0.8 else rnd.randrange(0, 2000)
    if isinstance(shape, BoolS):
        return rnd.random() < 0.5
    if isinstance(shape, RealS):
        return rnd.choice([0.0, 0.001, 1.0, 60.0, 120.0, 128.003, 147.253, 200.5, 1.118, 0.5, 1e-3, 999999.999])
    if isinstance(shape, StrS):
        return rnd.choice(LINES)
    if isinstance(shape, TdS):
        k = rnd.random()
        if k < 0.5:
            us = rnd.choice([0, 0, 1, 500000, 1000000, 1500000, 2000000, 3000001])
        elif k < 0.85:
            us = rnd.randrange(0, 31) * 100000        # tenths of a second: sums of their float values are not exact (C16f)
        else:
            us = rnd.randrange(0, 3000000)
        return datetime.timedelta(microseconds=us)
    if isinstance(shape, NoneS):
        return None
    if isinstance(shape, OptS):
        return None if rnd.random() < 0.3 else gen(shape.inner, rnd, depth)
    if isinstance(shape, TupS):
        return tuple(gen(s, rnd, depth) for s in shape.items)
    if isinstance(shape, SeqS):
        n = rnd.choice([0, 1, 1, 2, 2, 3, 4]) if depth < 2 else rnd.choice([0, 1, 2])
        return [gen(shape.elem, rnd, depth + 1) for _ in range(n)]
    if isinstance(shape, EnumS):
        cls = live_class(shape.key)
        return cls(rnd.choice(shape.members)[1])
    if isinstance(shape, UnionS):
        return gen(rnd.choice(shape.alts), rnd, depth)
    if isinstance(shape, RecS):
        special = SPECIAL_GEN.get(shape.key) if not (RAW_TOP and depth == 0) else None
        if special is not None:
            return special(rnd)
        cls = live_class(shape.key)
        o = object.__new__(cls)
        for k, s in shape.fields.items():
            object.__setattr__(o, k, gen(s, rnd, depth + 1))
        return o
    if isinstance(shape, MapS):
        raise NotEvaluable("map generation")
    raise NotEvaluable(f"gen {shape}")


def gen_bpm_events(rnd):
    """a well-formed tempo map built by the real constructors"""
    import chartparse.chart  # noqa
    from chartparse.sync import BPMEvent, BPMEvents
    res = rnd.choice([1, 2, 3, 5, 100, 192, 200, 480])
    n = rnd.choice([1, 1, 2, 3, 4])
    tick = 0
    evs = []
    for k in range(n):
        raw = str(rnd.choice([120000, 60000, 128003, 147253, 1118, 1, 999999999, 200000, 90000]))
        prev = evs[-1] if evs else None
        evs.append(BPMEvent.from_parsed_data(BPMEvent.ParsedData(tick=tick, raw_bpm=raw), prev, res))
        tick += rnd.choice([1, 2, 3, 96, 192, 193, 1000])
    return BPMEvents(events=evs, resolution=res)


CHART_TEXTS = [
    "[Song]\n{\n  Resolution = 100\n}\n[SyncTrack]\n{\n  0 = TS 4\n  0 = B 120000\n  400 = B 60000\n  800 = B 150000\n}\n[Events]\n{\n}\n"
    "[ExpertSingle]\n{\n  0 = N 0 0\n  200 = N 1 300\n  400 = N 2 0\n  400 = N 3 50\n  850 = N 4 0\n  900 = N 7 10\n}\n[HardSingle]\n{\n}\n",
    "[Song]\n{\n  Resolution = 192\n}\n[SyncTrack]\n{\n  0 = TS 4\n  0 = B 120000\n}\n[Events]\n{\n}\n"
    "[ExpertSingle]\n{\n  192 = N 0 0\n  384 = N 1 0\n  576 = N 2 96\n}\n[EasyDoubleBass]\n{\n  0 = N 0 0\n}\n",
]


def gen_chart(rnd):
    """a parsed chart: the two fixed texts or a generated well-framed file (generated sync section, several
    tracks, some of them without notes)"""
    import io
    import logging
    import chartparse.chart as cc
    if rnd.random() < 0.5:
        from . import native_file as nf
        lg = logging.getLogger("chartparse")
        old = lg.level
        lg.setLevel(logging.CRITICAL)
        try:
            for _ in range(5):
                secs, _w = nf.gen_sections(rnd, allow_bad=False)
                try:
                    return cc.Chart.from_file(io.StringIO(nf.text_of(secs)))
                except Exception:
                    continue
        finally:
            lg.setLevel(old)
    return cc.Chart.from_file(io.StringIO(rnd.choice(CHART_TEXTS)))


def gen_raw_bpm(rnd, zero=True):
    """the <n> of a tempo line: the fixed pool plus values of every magnitude the statement allows (C08: 'every
    positive integer n', any digit count) - seeded C08e rejects about 2 % of the n >= 16384005"""
    k = rnd.random()
    if k < 0.35:
        return rnd.choice([120000, 60000, 128003, 147253, 1118, 1, 999999999, 200000, 90000, 1001] + ([0] if zero else []))
    if k < 0.5:
        return rnd.randrange(1, 3000)
    if k < 0.7:
        return rnd.randrange(16380000, 16800000)
    d = rnd.randrange(4, 12)
    return rnd.randrange(10 ** (d - 1), 10 ** d)


def gen_bpm_data(rnd):
    import chartparse.chart  # noqa
    from chartparse.sync import BPMEvent
    return BPMEvent.ParsedData(tick=rnd.choice([0, 1, 2, 3, 96, 192, 193, 500, 1000]), raw_bpm=str(gen_raw_bpm(rnd)))


def gen_bpm_event(rnd):
    import chartparse.chart  # noqa
    from chartparse.sync import BPMEvent
    o = object.__new__(BPMEvent)
    for k, v in dict(tick=rnd.choice([0, 1, 2, 3, 96, 192]), timestamp=datetime.timedelta(microseconds=rnd.choice([0, 1, 500000, 1000001])),
                     _proximal_bpm_event_index=rnd.choice([0, 1, 2]),
                     bpm=(gen_raw_bpm(rnd) / 1000 if rnd.random() < 0.6 else rnd.choice([120.0, 60.0, 999999.999, 128.003, 0.001, 1.118, 0.0]))).items():
        object.__setattr__(o, k, v)
    return o


SPECIAL_GEN = {"chartparse.sync:BPMEvents": gen_bpm_events, "chartparse.chart:Chart": gen_chart,
               "chartparse.sync:BPMEvent.ParsedData": gen_bpm_data, "chartparse.sync:BPMEvent": gen_bpm_event}


def sorted_fix(c, args, rnd):
    """cheap repairs that make random inputs satisfy common preconditions"""
    ch = args.get("self")
    if ch is not None and hasattr(ch, "instrument_tracks") and "instrument" in args and rnd.random() < 0.85:
        pairs = [(i, d) for i, dd in ch.instrument_tracks.items() for d in dd]
        if pairs:
            args["instrument"], args["difficulty"] = rnd.choice(pairs)
    for p, v in list(args.items()):
        if isinstance(v, list) and v and hasattr(v[0], "tick") and hasattr(v[0], "note_track_index"):
            # one tick group or tick-sorted data with distinct indices per tick, open first
            if "from_parsed_data" in c.key or "complex_sustain" in c.key or "from_parsed_datas" in c.key:
                t = v[0].tick
                seen, out = set(), []
                for d in v:
                    if d.note_track_index not in seen:
                        seen.add(d.note_track_index)
                        object.__setattr__(d, "tick", t)
                        object.__setattr__(d, "sustain", abs(d.sustain))
                        out.append(d)
                out.sort(key=lambda d: 0 if d.note_track_index.value == 7 else 1)
                args[p] = out
            else:
                v.sort(key=lambda d: d.tick)
                out, seen = [], set()
                for d in v:
                    object.__setattr__(d, "sustain", abs(d.sustain))
                    object.__setattr__(d, "tick", abs(d.tick))
                    if (d.tick, d.note_track_index) not in seen:
                        seen.add((d.tick, d.note_track_index))
                        out.append(d)
                out.sort(key=lambda d: (d.tick, 0 if d.note_track_index.value == 7 else 1))
                args[p] = out
        elif isinstance(v, list) and v and hasattr(v[0], "tick") and hasattr(v[0], "sustain") and not hasattr(v[0], "note"):
            v.sort(key=lambda d: d.tick)
            for d in v:
                if d.sustain < 0:
                    object.__setattr__(d, "sustain", -d.sustain)
    return args


def search(reg, unit, seed, budget=2000, deadline_s=20):
    """Random small inputs for one unit; returns a failure dict or None."""
    if unit.get("engine") != "pyvc":
        return None
    try:
        c = reg.by_name(unit["name"])
    except KeyError:
        return None
    rnd = random.Random(f"{seed}:{unit['name']}")
    t0 = time.time()
    tried = valid = 0
    ns = getattr(c, "native_search", None)
    if ns is not None:
        # whole-unit generator + reference (file-level units: the inputs are generated texts)
        for _ in range(budget):
            if time.time() - t0 > deadline_s:
                break
            tried += 1
            try:
                fail = ns(rnd)
            except Exception as e:
                fail = {"clause": "native search harness error (not a verdict)", "observed": repr(e)[:300], "harness_error": True}
                return None
            if fail is not None:
                fail["tried"] = tried
                return fail
        return None
    xs = getattr(c, "extra_search", None)
    unit_deadline = deadline_s * (0.5 if xs is not None else 1.0)
    for _ in range(budget):
        if time.time() - t0 > unit_deadline:
            break
        try:
            global RAW_TOP
            RAW_TOP = c.key.endswith("__post_init__")
            try:
                args = {p: gen(sh, rnd) for p, sh in c.params.items() if not isinstance(sh, Conc)}
            finally:
                RAW_TOP = False
            args = sorted_fix(c, args, rnd)
        except NotEvaluable:
            return None
        except Exception:
            continue
        tried += 1
        try:
            fail = check_input(reg, c, args)
        except Exception:
            continue
        if fail is not None:
            fail["input"] = repr_args(args)
            fail["tried"] = tried
            return fail
    if xs is not None:
        # second stage: structured histories through the enclosing real entry point, compared with a
        # reference written from the property statements (vlib/native_notes.py)
        n2 = 0
        while n2 < budget and time.time() - t0 <= deadline_s:
            n2 += 1
            try:
                fail = xs(rnd)
            except Exception:
                continue
            if fail is not None:
                fail["tried"] = tried + n2
                return fail
    return None


def standin(reg, unit, seed, tier):
    budget = 3000 if tier == "quick" else 50000
    t0 = time.time()
    fail = search(reg, unit, seed, budget=budget, deadline_s=30 if tier == "quick" else 300)
    return {"unit": unit["name"], "ran": unit.get("engine") == "pyvc", "kind": "bounded: random small inputs against the native contract evaluator",
            "budget": budget, "seconds": round(time.time() - t0, 2), "failing": fail}
