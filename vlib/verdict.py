"""Turn unit results into the property verdict, the evidence file and the VIOLATION lines."""
from __future__ import annotations

import hashlib
import json
import os
import sys
import time

from .cli import HERE, REPO, TRUSTED_BASE, repo_tree_hash, load_known_findings

LOCK = os.path.join(HERE, "contracts", "obligations.lock")


def load_lock():
    if not os.path.exists(LOCK):
        return None
    d = {}
    for line in open(LOCK):
        line = line.strip()
        if not line or line.startswith("#"):
            continue
        prop, name = line.split(" ", 1)
        d.setdefault(prop, set()).add(name)
    return d


_LOCK_KINDS = ("post", "exc-missed", "loop-init", "loop-preserved", "lemma", "frame", "ground", "hint")


def lockable(o):
    k = o.get("kind") or ""
    n = o["name"]
    if n.startswith("fx/"):
        # per-function frame obligations follow the package's own function list (renaming or
        # extracting a helper is not a checker problem); the package-level and read-only-API
        # obligations come from the sidecar lists
        return n.startswith("fx/package/") or n.endswith("/modifies-nothing")
    if n.startswith("rx/facts/") or "/capture/item" in n:
        return False        # named after the shipped pattern's own text / items: an equivalent rewrite renames them
    return k in _LOCK_KINDS or n.startswith("rx/") or n.startswith("lemma:")


def lock_name(n):
    import re
    return re.sub(r"/L\d+(?=/)", "", n)


def write_replay(prop, unit, ob, confirmed, detail):
    os.makedirs(os.path.join(HERE, "out", "replays"), exist_ok=True)
    h = hashlib.sha1((ob["name"] + json.dumps(ob.get("model"), sort_keys=True, default=str)).encode()).hexdigest()[:10]
    path = os.path.join(HERE, "out", "replays", f"{prop}-{h}.json")
    rec = {"property": prop, "unit": unit["name"], "engine": unit.get("engine"), "obligation": ob["name"],
           "kind": ob.get("kind"), "solver": {"backend": ob.get("backend"), "reason": ob.get("reason"), "seconds": ob.get("seconds")},
           "model": ob.get("model"), "native_replay": {"confirmed": confirmed, "detail": detail},
           "function_sha": unit.get("sha"), "repo": repo_tree_hash()}
    with open(path, "w") as f:
        json.dump(rec, f, indent=1, default=str)
    return path


def _faithful(model):
    """is the native rendering of this solver model the same input the solver talks about?"""
    from fractions import Fraction
    if model is None:
        return False
    if isinstance(model, str):
        return False
    if isinstance(model, dict):
        if "real" in model and len(model) == 1:
            try:
                q = Fraction(model["real"])
                return abs(q) < 10 ** 300 and Fraction(float(q)) == q
            except Exception:
                return False
        return all(_faithful(v) if not (k in ("rec", "enum")) else True for k, v in model.items())
    if isinstance(model, (list, tuple)):
        return all(_faithful(v) for v in model)
    return True


DEP_KINDS = ("escape", "safety", "float-range", "call-pre", "exc-justified")


def conclude(prop, tier, seed, results, wall, reg):
    from . import replay as rp
    findings, _fixed = load_known_findings()
    errors = [r for r in results if r["status"] == "error"]
    obligations = [(r, o) for r in results for o in r["obligations"]]
    n_ob = len(obligations)
    discharged = [o for _, o in obligations if o["status"] == "discharged"]
    def off_property(r, o):
        # a refuted postcondition clause / loop invariant / hint that carries ANOTHER property's
        # statement (Contract.clause_props; invariants and hints are looked up by their own names)
        if r.get("engine") != "pyvc":
            return False
        n, clause = o["name"], None
        for kind, mark in (("post", "/post/"), ("loop-init", "/init/"), ("loop-preserved", "/preserved/"), ("hint", "/hint/")):
            if o.get("kind") == kind and mark in n:
                clause = n.split(mark, 1)[1]
        if "/must-raise/" in n:
            # "must not return under this condition" (the missing-raise side of a raises clause); the
            # other side - raised although the condition does not hold - is never attributed
            clause = "must-raise/" + n.split("/must-raise/", 1)[1]
        if clause is None:
            return False
        try:
            c = reg.by_name(r["name"])
        except KeyError:
            return False
        return not c.clause_relevant(clause, prop)
    off_prop = [(r, o) for r, o in obligations if o["status"] == "refuted" and not r.get("dependency") and off_property(r, o)]
    off_names = {id(o) for _, o in off_prop}
    refuted = [(r, o) for r, o in obligations if o["status"] == "refuted" and id(o) not in off_names and (not r.get("dependency") or o.get("kind") in DEP_KINDS)]
    # a dependency's functional postcondition that fails is another property's violation; for this
    # property it only means the callee contract its proof leans on is not established: undecided
    dep_broken = [(r, o) for r, o in obligations if o["status"] == "refuted" and r.get("dependency") and o.get("kind") not in DEP_KINDS]
    # (same treatment for off-property clauses of a unit tagged with several properties: the unit's
    # contract is not established as a whole, so nothing is claimed as proved through it; the bounded
    # stand-in then evaluates only the clauses of THIS property)
    undecided_obs = [(r, o) for r, o in obligations if o["status"] == "undecided"] + dep_broken + off_prop
    undecided_units = [r for r in results if r["status"] == "undecided"]
    by_backend = {}
    solver_s = 0.0
    for _, o in obligations:
        by_backend[o.get("backend") or "none"] = by_backend.get(o.get("backend") or "none", 0) + 1
        solver_s += o.get("seconds") or 0

    exit_code = 0
    lines = []
    violations = 0
    known = 0
    # ---- refutations -> replay -> VIOLATION / KNOWN-FINDING   (one report per unit)
    by_unit = {}
    reported_units = set()
    downgraded = []
    for r, o in refuted:
        by_unit.setdefault(r["name"], (r, []))[1].append(o)
    for uname, (r, obsr) in by_unit.items():
        unknown = []
        for o in obsr:
            kf = next((f for f in findings if f.get("property") == prop and f.get("obligation") == o["name"]), None)
            if kf is not None:
                known += 1
                lines.append(f"KNOWN-FINDING: property={prop} {kf['_line'][len('finding:'):].strip()}")
            else:
                unknown.append(o)
        if not unknown:
            continue
        confirmed, detail, which = False, None, unknown[0]
        ran = {}
        for o in unknown:
            ok, d = rp.try_replay(reg, r, o)
            ran[o["name"]] = d
            if ok:
                confirmed, detail, which = True, d, o
                break
            detail = detail or d
        if not confirmed:
            found = rp.search_failing_input(reg, r, unknown[0], seed)
            if found is not None:
                confirmed, detail = True, found
        if not confirmed and r.get("engine") == "pyvc" and not os.environ.get("VERIF_STRICT_REFUTATIONS") \
                and all(_faithful(o.get("model")) for o in unknown) \
                and all(isinstance(ran.get(o["name"]), str) and ran[o["name"]].startswith("the model does not reproduce natively") for o in unknown):
            # Engine / modular incompleteness, not a violation: every counter-model is a complete,
            # well-typed input on which the REAL function satisfies every clause of its contract,
            # and the native search finds no failing input either.  A refutation that the code itself
            # contradicts says that the VC (a callee contract weaker than the callee, a loop cut, an
            # encoding gap) is too weak to prove the obligation - "a failed proof means undecided".
            # Only for models the replay renders FAITHFULLY: every real is exactly a float and there is
            # no string (strings are abstracted by uninterpreted recogniser predicates; a real that is
            # not a float is replayed as the nearest float, i.e. as a different input - seeded C08e).
            # (False alarm found by benign refactoring BEN-R7B1-1.)  Refutations whose model cannot
            # be turned into an input, and regex / frame / lemma refutations, are still reported.
            for o in unknown:
                o["status"] = "undecided"
                o["reason"] = (o.get("reason") or "") + " | refuted by the solver, but the real function satisfies its contract on the counter-model and the native search finds no failing input: undecided (engine or modular incompleteness)"
            downgraded.extend((r, o) for o in unknown)
            continue
        ob = dict(which)
        ob["all_refuted_obligations"] = [{"name": o["name"], "reason": o.get("reason"), "backend": o.get("backend")} for o in unknown]
        path = write_replay(prop, r, ob, confirmed, detail)
        violations += 1
        reported_units.add(uname)
        lines.append(f"VIOLATION property={prop} replay={path}" + ("" if confirmed else " no-failing-input-found"))
        exit_code = 1

    undecided_obs = undecided_obs + downgraded
    refuted = [(r, o) for r, o in refuted if o["status"] == "refuted"]
    # ---- bounded stand-ins for undecided units / obligations
    bounded = []
    for r in undecided_units + [r for r, _ in undecided_obs]:
        if any(b["unit"] == r["name"] for b in bounded) or r["name"] in reported_units:
            continue        # (one report per unit: a unit with a replayed refutation needs no stand-in)
        b = rp.bounded_standin(reg, r, seed, tier)
        bounded.append(b)
        if b.get("failing") is not None and r.get("dependency") and "exception escapes" not in str(b["failing"].get("clause")):
            b["note"] = "a functional clause of a dependency fails natively: reported under the properties that claim this unit, not here"
            continue
        if b.get("failing") is not None:
            ob = {"name": r["name"] + "/bounded-stand-in", "kind": "bounded", "backend": "native", "reason": "native contract check failed",
                  "model": b["failing"], "seconds": b.get("seconds", 0)}
            path = write_replay(prop, r, ob, True, b["failing"])
            violations += 1
            lines.append(f"VIOLATION property={prop} replay={path}")
            exit_code = 1

    # ---- thorough tier: native cross-checks (proved pyvc units; history scripts for frame units)
    for r in results:
        for cc in ([r["cross_check"]] if r.get("cross_check") else []) + list(r.get("cross_checks") or []):
            bounded.append(cc)
            if cc.get("failing") is not None:
                ob = {"name": cc.get("unit", r["name"]) + "/native-cross-check", "kind": "bounded", "backend": "native",
                      "reason": "a generated input / history fails on the real code although the unit's obligations were discharged",
                      "model": cc["failing"], "seconds": cc.get("seconds", 0)}
                path = write_replay(prop, r, ob, True, cc["failing"])
                violations += 1
                lines.append(f"VIOLATION property={prop} replay={path}")
                exit_code = 1

    # ---- lock / vacuity: the obligations that come from the sidecar contracts themselves
    # (postconditions, must-raise clauses, loop invariants, lemma goals, regex and frame
    # obligations: their names do not depend on the code) must be generated again on every run,
    # unless their unit is reported undecided.  A run that silently generates fewer of them
    # (a path that vanished, a plan that shrank) is a checker problem (exit 3), never a pass.
    lock = load_lock()
    missing = []
    # (dependency units of the callee closure are discovered from their callers' results: when a
    # caller is undecided they are legitimately absent, so they are not locked)
    have = {lock_name(o["name"]) for r_, o in obligations if lockable(o) and not r_.get("dependency")}
    if os.environ.get("VERIF_WRITE_LOCK"):
        keep = []
        if os.path.exists(LOCK):
            keep = [l.rstrip("\n") for l in open(LOCK) if l.strip() and not l.startswith(prop + " ")]
        with open(LOCK, "w") as f:
            for l in keep:
                f.write(l + "\n")
            for n in sorted(have):
                f.write(f"{prop} {n}\n")
    elif lock is not None and prop in lock:
        und_units = {r["name"] for r in undecided_units}
        for name in sorted(lock[prop] - have):
            if not any(name.startswith(u + "/") or name.startswith("lemma:" + u) for u in und_units):
                missing.append(name)
    if errors or n_ob == 0 or missing:
        for e in errors:
            print(f"check: unit {e['name']} failed: {e['reason'][-1500:]}", file=sys.stderr)
        if n_ob == 0:
            print("check: zero obligations generated", file=sys.stderr)
        if missing:
            print(f"check: {len(missing)} locked obligations were not generated, e.g. {missing[:5]}", file=sys.stderr)
        if exit_code == 0:
            exit_code = 3

    proved = (exit_code == 0 and not undecided_obs and not undecided_units and known == 0)
    level = "proof" if proved else "other"
    assumptions = sorted({a for r in results for a in r.get("assumptions", [])})
    funcs = [{"unit": r["name"], "engine": r.get("engine"), "source_sha256": r.get("sha"), "status": r["status"],
              "obligations": len(r["obligations"]), "paths": r.get("paths"), "seconds": round(r.get("seconds", 0), 3),
              **({"reason": r["reason"]} if r.get("reason") else {})} for r in results]
    samples = [{"obligation": o["name"], "kind": o.get("kind"), "status": o["status"], "backend": o.get("backend"),
                "seconds": o.get("seconds")} for _, o in obligations[:: max(1, n_ob // 12)]][:14]
    cov = {
        "obligations": n_ob, "discharged": len(discharged),
        "refuted": len(refuted), "undecided": len(undecided_obs) + len(undecided_units),
        "checker_cmd": f"./check {prop} --tier {tier}",
        "trusted_base": TRUSTED_BASE,
        "functions_under_contract": funcs,
        "by_backend": by_backend, "solver_seconds": round(solver_s, 3),
        "undecided_list": [o["name"] + ": " + (o.get("reason") or "") for _, o in undecided_obs] +
                          [r["name"] + ": " + r.get("reason", "") for r in undecided_units],
        "bounded_stand_ins": bounded,
        "known_findings_matched": known,
        "refuted_clauses_of_other_properties": [o["name"] for _, o in off_prop],
        "samples": samples or [{"note": "no obligations"}],
        "repo": repo_tree_hash(),
    }
    if level == "other":
        why = []
        if violations:
            why.append(f"{violations} obligation(s) refuted: see VIOLATION lines / replay files")
        if undecided_obs or undecided_units:
            why.append(f"{len(undecided_obs) + len(undecided_units)} obligation(s)/unit(s) undecided (solver timeout, out of subset or contract binding lost): "
                       "not counted as proved; the bounded stand-in ran for the affected functions")
        if known:
            why.append(f"{known} known finding(s) matched")
        if errors or missing or n_ob == 0:
            why.append("checker problem (no verdict)")
        cov["explanation"] = "; ".join(why) or "downgraded"
        cov["evaluations"] = max(1, n_ob)
        cov["distinct_nontrivial"] = max(2, len({o["name"] for _, o in obligations}))
    ev = {"property_id": prop, "tier": tier, "seed": seed, "level": level, "coverage": cov,
          "assumptions": assumptions, "wall_s": round(wall, 2), "violations": violations}
    # evidence/ describes runs against /repo itself; runs of the self-test against a scratch copy
    # (CHARTPARSE_REPO set to something else) write theirs under out/
    evdir = os.path.join(HERE, "evidence")
    if os.path.realpath(os.environ.get("CHARTPARSE_REPO", "/repo")) != "/repo":
        evdir = os.path.join(HERE, "out", "evidence-scratch")
    os.makedirs(evdir, exist_ok=True)
    with open(os.path.join(evdir, f"{prop}.json"), "w") as f:
        json.dump(ev, f, indent=1, default=str)
    for ln in lines:
        print(ln)
    print(f"{prop}: level={level} obligations={n_ob} discharged={len(discharged)} refuted={len(refuted)} "
          f"undecided={len(undecided_obs) + len(undecided_units)} units={len(results)} wall={wall:.1f}s exit={exit_code}")
    return exit_code
