"""Native replay of solver counter-models and the bounded (native) contract check.

(placeholder implementations; the native contract evaluator is in vlib/native.py)"""
from __future__ import annotations

import json


def try_replay(reg, unit, ob):
    try:
        from . import native
    except ImportError:
        return False, "native replay not available"
    try:
        return native.replay_model(reg, unit, ob)
    except Exception as e:
        return False, f"replay harness error: {e!r}"[:300]


def search_failing_input(reg, unit, ob, seed):
    try:
        from . import native
        return native.search(reg, unit, seed, budget=3000)
    except ImportError:
        return None
    except Exception:
        return None


def bounded_standin(reg, unit, seed, tier):
    try:
        from . import native
    except ImportError:
        return {"unit": unit["name"], "ran": False, "reason": "no native stand-in available"}
    try:
        return native.standin(reg, unit, seed, tier)
    except Exception as e:
        return {"unit": unit["name"], "ran": False, "reason": f"stand-in error: {e!r}"[:300]}


def run_replay_file(path):
    """Re-execute a replay file against the current tree (CHARTPARSE_REPO): exit 1 if the failure
    reproduces, 0 if not."""
    rec = json.load(open(path))
    __import__("os").environ["VERIF_CURRENT_PROP"] = rec.get("property") or ""
    print(json.dumps({k: rec[k] for k in ("property", "unit", "obligation")}, indent=1))
    try:
        from . import native
        import contracts
        reg = contracts.build_registry()
        unit = {"name": rec["unit"], "engine": rec.get("engine")}
        ob = {"name": rec["obligation"], "model": rec.get("model"), "kind": rec.get("kind")}
        detail = (rec.get("native_replay") or {}).get("detail")
        ok, d = False, "no replay recipe for this record"
        if rec.get("kind") == "bounded" or (isinstance(detail, dict) and "tried" in detail):
            # a failing input found by a native search: the search is seeded, re-run it
            if isinstance(detail, dict) and isinstance(detail.get("input"), dict) and "text" in detail["input"]:
                ok, d = _replay_text(detail["input"])
            if not ok:
                f = native.search(reg, unit, int(__import__("os").environ.get("VERIF_SEED", "0")), budget=6000, deadline_s=60)
                ok, d = (f is not None), (f or "the seeded native search finds no failing input on this tree")
        else:
            ok, d = native.replay_model(reg, unit, ob)
            if not ok:
                f = native.search(reg, unit, int(__import__("os").environ.get("VERIF_SEED", "0")), budget=3000)
                if f is not None:
                    ok, d = True, f
        print("native replay:", "REPRODUCED" if ok else "not reproduced", str(d)[:1500])
        return 1 if ok else 0
    except ImportError:
        print("native replay not available")
        return 0


def _replay_text(inp):
    """re-parse the recorded chart text and compare with the statement's reference"""
    import io
    import chartparse.chart as cc
    from . import native_file as nf
    text = inp["text"]
    try:
        want = eval(inp.get("want_tracks", "None"), {"Instrument": __import__("chartparse.instrument", fromlist=["x"]).Instrument,
                                                       "Difficulty": __import__("chartparse.instrument", fromlist=["x"]).Difficulty})
    except Exception:
        want = None
    lines = text.splitlines()
    # recover the section list of a well-framed text
    sections, k = [], 0
    try:
        while k < len(lines):
            tag = lines[k][1:-1]
            assert lines[k].startswith("[") and lines[k + 1] == "{"
            j = k + 2
            while lines[j] != "}":
                j += 1
            sections.append((tag, lines[k + 2:j]))
            k = j + 1
    except Exception:
        sections = None
    try:
        chart, exc = cc.Chart.from_file(io.StringIO(text), want_tracks=want), None
    except Exception as e:
        chart, exc = None, e
    from chartparse.exceptions import RegexNotMatchError, MissingRequiredField
    if exc is not None and not isinstance(exc, (ValueError, RegexNotMatchError, MissingRequiredField)):
        return True, f"parsing raised {type(exc).__name__}: {exc}"
    if sections is None:
        return False, "the recorded text is not well-framed; only the exception class was checked"
    try:
        ref, rexc = nf.reference(sections, want), None
    except Exception as e:
        ref, rexc = None, e
    if (exc is None) != (rexc is None):
        return True, f"real parse: {exc!r}; reference: {rexc!r}"
    if exc is None:
        bad = nf.compare(chart, ref, [])
        if bad is not None and "warning" not in bad[0]:
            return True, {"clause": bad[0], "observed": bad[1][:600]}
    return False, "the recorded text parses as the statement's reference says"
