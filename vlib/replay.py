"""Native replay of solver counter-models and the bounded (native) contract check.

(placeholder implementations; the native contract evaluator is in vlib/native.py)"""
from __future__ import annotations

import json


def try_replay(reg, unit, ob):
    try:
        from . import native
    except ImportError:
        return False, "native replay not available"
    try:
        return native.replay_model(reg, unit, ob)
    except Exception as e:
        return False, f"replay harness error: {e!r}"[:300]


def search_failing_input(reg, unit, ob, seed):
    try:
        from . import native
        return native.search(reg, unit, seed, budget=3000)
    except ImportError:
        return None
    except Exception:
        return None


def bounded_standin(reg, unit, seed, tier):
    try:
        from . import native
    except ImportError:
        return {"unit": unit["name"], "ran": False, "reason": "no native stand-in available"}
    try:
        return native.standin(reg, unit, seed, tier)
    except Exception as e:
        return {"unit": unit["name"], "ran": False, "reason": f"stand-in error: {e!r}"[:300]}


def run_replay_file(path):
    rec = json.load(open(path))
    print(json.dumps({k: rec[k] for k in ("property", "unit", "obligation")}, indent=1))
    try:
        from . import native
        import contracts
        reg = contracts.build_registry()
        ok, detail = native.replay_model(reg, {"name": rec["unit"], "engine": rec.get("engine")},
                                         {"name": rec["obligation"], "model": rec.get("model"), "kind": rec.get("kind")})
        print("native replay:", "REPRODUCED" if ok else "not reproduced", detail)
        return 1 if ok else 0
    except ImportError:
        print("native replay not available")
        return 0
