"""Native replay attempts for frame (fxvc) refutations: generic history scripts against the real
code.  C19: read-only operations must leave the chart observably unchanged and equal to its twin.
C17: a parse must not depend on what was parsed before (same process) or on process age."""
from __future__ import annotations

import datetime
import io
import json
import os
import subprocess
import sys

from .native import CHART_TEXTS

BAD_TEXT = "[Song]\n{\n  Resolution = 192\n}\n[SyncTrack]\n{\n  0 = TS 4\n  0 = B 120000\n  0 = B 90000\n}\n[Events]\n{\n}\n"
OTHER = ("[Song]\n{\n  Resolution = 480\n  Name = \"other\"\n}\n[SyncTrack]\n{\n  0 = TS 3 3\n  0 = B 93000\n  960 = B 181500\n}\n[Events]\n{\n  0 = E \"section a\"\n}\n"
         "[ExpertSingle]\n{\n  0 = N 0 0\n  0 = N 1 0\n  0 = N 2 700\n  160 = N 4 0\n  160 = N 5 0\n  320 = N 7 0\n  320 = N 6 0\n  320 = S 2 100\n}\n")


RICH = ("[Song]\n{\n  Name = \"rich\"\n  Resolution = 192\n  Offset = 0\n  Player2 = bass\n  Difficulty = 3\n}\n"
        "[SyncTrack]\n{\n  0 = TS 4\n  0 = B 120000\n  0 = A 0\n  768 = B 150000\n  768 = A 1600000\n  1536 = TS 3 3\n}\n"
        "[Events]\n{\n  0 = E \"section Intro\"\n  384 = E \"phrase_start\"\n  384 = E \"lyric Hel-\"\n  480 = E \"lyric lo\"\n  768 = E \"section Verse 1\"\n  900 = E \"phrase_end\"\n}\n"
        "[ExpertSingle]\n{\n  192 = N 0 0\n  256 = N 1 0\n  384 = N 2 96\n  384 = N 3 192\n  384 = S 2 384\n  480 = N 1 0\n  480 = N 5 0\n  500 = E soloing\n  576 = N 7 0\n  600 = N 6 0\n  600 = N 4 10\n  700 = E soloend\n}\n"
        "[HardDoubleBass]\n{\n  0 = N 0 0\n  96 = S 2 96\n  96 = N 1 0\n}\n")


def _stress(kind_lines, section):
    """a chart dominated by one kind of line (history scripts: any memo keyed on what was seen
    before gets a different state from each of these)"""
    body = {"SyncTrack": "  0 = TS 4\n  0 = B 120000\n", "Events": "", "ExpertSingle": ""}
    body[section] += "".join("  %d = %s\n" % (10 * (i + 1), kind_lines) for i in range(12))
    return ("[Song]\n{\n  Resolution = 192\n}\n[SyncTrack]\n{\n" + body["SyncTrack"] + "}\n[Events]\n{\n" + body["Events"] + "}\n"
            "[ExpertSingle]\n{\n" + body["ExpertSingle"] + "}\n")


STRESS = [("text-heavy", _stress('E "crowd_clap"', "Events")), ("lyric-heavy", _stress('E "lyric la"', "Events")),
          ("section-heavy", _stress('E "section s"', "Events")), ("ts-heavy", _stress("TS 3", "SyncTrack")),
          ("anchor-heavy", _stress("A 100", "SyncTrack")), ("bpm-heavy", _stress("B 100000", "SyncTrack")),
          ("starpower-heavy", _stress("S 2 5", "ExpertSingle")), ("trackevent-heavy", _stress("E solo", "ExpertSingle")),
          ("note-heavy", _stress("N 1 0", "ExpertSingle")), ("garbage-heavy", _stress("X nothing", "Events"))]


def observe(chart):
    """a full observation of a chart: every dataclass field of every event/track, str and repr"""
    import dataclasses

    def obs(o):
        if dataclasses.is_dataclass(o) and not isinstance(o, type):
            return (type(o).__name__, tuple((f.name, obs(getattr(o, f.name))) for f in dataclasses.fields(o) if not f.name.startswith("_regex")), str(o), repr(o))
        if isinstance(o, (list, tuple)):
            return tuple(obs(x) for x in o)
        if isinstance(o, dict):
            return tuple((repr(k), obs(v)) for k, v in o.items())
        return repr(o)
    return (obs(chart.metadata), obs(chart.sync_track), obs(chart.global_events_track),
            tuple((repr(i), tuple((repr(d), obs(t)) for d, t in dd.items())) for i, dd in chart.instrument_tracks.items()), str(chart), repr(chart))


def readonly_history():
    import chartparse.chart as cc
    from chartparse.instrument import Instrument, Difficulty
    for text in CHART_TEXTS:
        chart, twin = cc.Chart.from_file(io.StringIO(text)), cc.Chart.from_file(io.StringIO(text))
        before = observe(chart)
        ops = []
        for i in Instrument:
            ops.append((f"chart[{i}]", lambda i=i: chart[i]))
            for d in Difficulty:
                for a in ((), (0,), (0, 400), (100, 100), (datetime.timedelta(0),), (datetime.timedelta(0), datetime.timedelta(seconds=2)), (None, 0)):
                    ops.append((f"notes_per_second({i}, {d}, *{a})", lambda i=i, d=d, a=a: chart.notes_per_second(i, d, *a)))
        be = chart.sync_track.bpm_events
        for t in (0, 1, 399, 400, 401, 10**6, -1):
            ops.append((f"timestamp_at_tick({t})", lambda t=t: be.timestamp_at_tick(t)))
            ops.append((f"timestamp_at_tick_no_optimize_return({t})", lambda t=t: be.timestamp_at_tick_no_optimize_return(t)))
        ops += [("str", lambda: str(chart)), ("repr", lambda: repr(chart)), ("==", lambda: chart == twin)]
        for i, dd in list(chart.instrument_tracks.items()):
            for d, tr in list(dd.items()):
                ops += [(f"{i}/{d}.last_note_end_timestamp", lambda tr=tr: tr.last_note_end_timestamp), (f"{i}/{d}.header_tag", lambda tr=tr: tr.header_tag),
                        (f"str(track {i}/{d})", lambda tr=tr: (str(tr), repr(tr)))]
                for e in tr.note_events:
                    ops += [("note.end_tick/longest_sustain/hash", lambda e=e: (e.end_tick, e.longest_sustain, hash(e), str(e), repr(e)))]
                for e in tr.star_power_events:
                    ops += [("phrase.end_tick", lambda e=e: (e.end_tick, e.tick_is_during_event(0), hash(e)))]
        for name, op in ops:
            try:
                op()
            except Exception:
                pass
            if not (chart == twin) or observe(chart) != before:
                return {"history": f"parse chart and twin; {name}", "observed": "chart == twin is %s; observation %s" % (chart == twin, "changed" if observe(chart) != before else "unchanged"),
                        "chart_text": text}
    return None


_CHILD = r'''
import sys, io, json
sys.path.insert(0, sys.argv[1])
import chartparse.chart as cc
from vlib.native_frames import observe
print(json.dumps(repr(observe(cc.Chart.from_file(io.StringIO(sys.stdin.read()))))))
'''


def history_independence():
    import chartparse.chart as cc
    from chartparse.instrument import Instrument, Difficulty
    for A in (RICH, CHART_TEXTS[0]):
        f = _history_independence(A)
        if f:
            return f
    return None


def _history_independence(A):
    import chartparse.chart as cc
    from chartparse.instrument import Instrument, Difficulty
    repo = os.environ.get("CHARTPARSE_REPO", "/repo")
    here = os.path.dirname(os.path.dirname(os.path.abspath(__file__)))
    env = dict(os.environ, PYTHONPATH=os.pathsep.join([os.path.join(here, ".deps"), here, repo]))
    out = subprocess.run([sys.executable, "-c", _CHILD, repo], input=A, capture_output=True, text=True, env=env, timeout=120)
    fresh = json.loads(out.stdout.strip().splitlines()[-1]) if out.returncode == 0 and out.stdout.strip() else None
    if fresh is None:
        raise RuntimeError("fresh-process parse failed: " + (out.stderr or "")[-300:])
    # fresh processes under different string-hash seeds: any dependence on set/dict-of-str hash order shows
    for hs in ("1", "2", "3", "4", "5"):
        o2 = subprocess.run([sys.executable, "-c", _CHILD, repo], input=A, capture_output=True, text=True, env=dict(env, PYTHONHASHSEED=hs), timeout=120)
        f2 = json.loads(o2.stdout.strip().splitlines()[-1]) if o2.returncode == 0 and o2.stdout.strip() else None
        if fresh is not None and f2 is not None and f2 != fresh:
            return {"history": f"parse A in a fresh process; parse A in a fresh process with PYTHONHASHSEED={hs}",
                    "observed": "the two parses of the same text differ (dependence on hash order)", "chart_text": A}
    first = repr(observe(cc.Chart.from_file(io.StringIO(A))))
    steps = ["parse A"]
    for label, text, kw in ((("parse B", OTHER, {}), ("parse A restricted", A, {"want_tracks": [(Instrument.GUITAR, Difficulty.HARD)]}),
                            ("parse failing C", BAD_TEXT, {}), ("parse B again", OTHER, {}), ("parse CHART 2", CHART_TEXTS[1], {}))
                           + tuple(("parse %s chart" % n, t, {}) for n, t in STRESS)):
        try:
            cc.Chart.from_file(io.StringIO(text), **kw)
        except Exception:
            pass
        steps.append(label)
        try:
            again = repr(observe(cc.Chart.from_file(io.StringIO(A))))
        except Exception as e:
            return {"history": "; ".join(steps) + "; parse A again", "observed": f"the second parse of A raises {type(e).__name__}: {e}"[:300], "chart_text": A}
        if again != first:
            return {"history": "; ".join(steps) + "; parse A again", "observed": "the second parse of A differs from the first", "chart_text": A}
        if fresh is not None and again != fresh:
            return {"history": "; ".join(steps) + "; parse A again", "observed": "the parse of A differs from a fresh-process parse of A", "chart_text": A}
    if fresh is not None and first != fresh:
        return {"history": "parse A", "observed": "first parse differs from a fresh-process parse", "chart_text": A}
    return None


def one_shot_history():
    """the section parsers on a one-shot iterator of their lines versus on the list of the same lines"""
    import chartparse.chart  # noqa
    import itertools
    import logging
    from chartparse.metadata import Metadata
    from chartparse.sync import SyncTrack
    from chartparse.globalevents import GlobalEventsTrack
    from chartparse.instrument import InstrumentTrack, Instrument, Difficulty
    from . import native_file as nf
    logging.getLogger("chartparse.track").setLevel(logging.CRITICAL)
    be = SyncTrack.from_chart_lines(192, list(nf.SYNC[1])).bpm_events
    cases = []
    for b in nf.SONG + [["  Offset = 3", '  Name = "x"', "  Resolution = 96", '  Genre = "metal"', "  Player2 = rhythm"]]:
        cases.append(("Metadata.from_chart_lines", lambda it: Metadata.from_chart_lines(it), b))
    for b in nf.SYNC:
        cases.append(("SyncTrack.from_chart_lines", lambda it: SyncTrack.from_chart_lines(192, it), b))
    for b in nf.EVENTS:
        cases.append(("GlobalEventsTrack.from_chart_lines", lambda it: GlobalEventsTrack.from_chart_lines(it, be), b))
    for b in nf.TRACK:
        cases.append(("InstrumentTrack.from_chart_lines", lambda it: InstrumentTrack.from_chart_lines(Instrument.GUITAR, Difficulty.EXPERT, it, be), b))

    def run(f, arg):
        try:
            return ("ok", f(arg))
        except Exception as e:
            return ("raised", type(e).__name__)
    for name, f, body in cases:
        want = run(f, list(body))
        for label, mk in (("iter(lines)", lambda: iter(list(body))), ("itertools.islice(lines, 0, n)", lambda: itertools.islice(list(body), 0, len(body)))):
            got = run(f, mk())
            if got != want:
                return {"history": f"{name}({label}) versus {name}(list(lines))", "observed": f"one-shot iterator gives {got!r}; the list gives {want!r}"[:600],
                        "lines": body}
    return None


def threads_history(n_threads=8, rounds=6):
    """bounded: several threads parse (different) charts at the same time; every result must equal
    the serial parse of the same text"""
    import threading
    import chartparse.chart as cc
    import logging
    logging.getLogger("chartparse.track").setLevel(logging.CRITICAL)
    texts = [RICH, CHART_TEXTS[0], OTHER, CHART_TEXTS[1]] + [t for _, t in STRESS[:4]]
    serial = [repr(observe(cc.Chart.from_file(io.StringIO(t)))) for t in texts]
    bad = []
    barrier = threading.Barrier(n_threads)

    def work(k):
        try:
            barrier.wait(timeout=30)
            for r in range(rounds):
                j = (k + r) % len(texts)
                got = repr(observe(cc.Chart.from_file(io.StringIO(texts[j]))))
                if got != serial[j]:
                    bad.append({"history": f"{n_threads} threads parsing concurrently; thread {k}, round {r}, chart #{j}",
                                "observed": "the concurrent parse differs from the serial parse of the same text", "chart_text": texts[j]})
        except Exception as e:
            bad.append({"history": f"{n_threads} threads parsing concurrently; thread {k}", "observed": f"raised {type(e).__name__}: {e}"[:300]})
    ths = [threading.Thread(target=work, args=(k,)) for k in range(n_threads)]
    for t in ths:
        t.start()
    for t in ths:
        t.join(120)
    return bad[0] if bad else None


def cross_check():
    """thorough tier (bounded): all history scripts on the tree as it is"""
    import logging
    for nm in ("chartparse.track", "chartparse.chart"):
        logging.getLogger(nm).setLevel(logging.CRITICAL)
    out = []
    for name, fn in (("read-only operations leave the chart equal to its twin", readonly_history), ("a parse does not depend on earlier parses or on the process", history_independence),
                     ("section parsers on one-shot iterators", one_shot_history), ("concurrent parses equal serial parses", threads_history),
                     ("tick queries do not depend on earlier queries", query_history)):
        import time as _t
        t0 = _t.time()
        try:
            f = fn()
        except Exception as e:
            out.append({"unit": "fx:history/" + name, "ran": False, "reason": repr(e)[:300], "failing": None})
            continue
        out.append({"unit": "fx:history/" + name, "ran": True, "kind": "bounded: native history script against the real code", "seconds": round(_t.time() - t0, 2), "failing": f})
    return out


def query_history():
    """tick queries on a tempo map that has answered other queries before versus on a fresh one:
    result or exception class must agree for every (tick, hint)"""
    import chartparse.chart as cc
    text = CHART_TEXTS[0]

    def fresh():
        return cc.Chart.from_file(io.StringIO(text)).sync_track.bpm_events

    def outcome(be, tick, hint):
        try:
            return ("ok", be.timestamp_at_tick(tick, start_iteration_index=hint))
        except Exception as e:
            return ("raised", type(e).__name__)
    used = fresh()
    ticks = [0, 1, 399, 400, 401, 799, 800, 801, 5000]
    for t in ticks:
        outcome(used, t, 0)
        try:
            used.timestamp_at_tick_no_optimize_return(t)
        except Exception:
            pass
    for t in ticks:
        for h in (0, 1, 2, 3, 4):
            a, b = outcome(used, t, h), outcome(fresh(), t, h)
            if a != b:
                return {"history": f"bpm_events answers ticks {ticks} with hint 0; then timestamp_at_tick({t}, start_iteration_index={h})",
                        "observed": f"after the earlier queries: {a!r}; on a freshly parsed tempo map: {b!r}", "chart_text": text}
    return None


def replay(prop_hint, ob_name):
    fails = []
    try:
        if "iterable-parameter" in ob_name or "one-shot" in ob_name:
            f = one_shot_history()
            if f:
                return True, f
            return False, "the section parsers give the same result on a one-shot iterator and on a list of the generated bodies"
        if "readonly" in prop_hint or "modifies-nothing" in ob_name or "equality" in ob_name or "auto-inserting" in ob_name or "rejects" in ob_name:
            f = readonly_history()
            if f:
                return True, f
        f = history_independence()
        if f:
            return True, f
        f = readonly_history()
        if f:
            return True, f
        f = query_history()
        if f:
            return True, f
    except Exception as e:
        return False, f"history script error: {e!r}"[:200]
    return False, "the generic history scripts (read-only operations; parse A, B, failing C, A again; fresh process) show no difference"
