"""Native search for the file-level units (Chart.from_file, Chart.from_filepath,
Chart._partition_lines_by_data_section): generated chart texts run through the REAL functions and
compared with a reference computed from the statement of C06/C13 (each section's own parser applied
to exactly its body; selection = set of pairs; relations between parses: section order, newline
style, byte-order mark, unknown sections, replaced section bodies).

Used (a) to find a failing input for a refuted obligation of these units (the solver's model of a
symbolic file is not directly executable) and (b) as the bounded stand-in when they are undecided.
Bounded: never counted as proof."""
from __future__ import annotations

import io
import itertools
import logging
import os
import tempfile

SONG = [['  Name = "n"', "  Resolution = 192", "  Offset = 0"], ["  Resolution = 480", '  Artist = "a"', "  Player2 = bass"],
        ["  Resolution = 100"]]
SYNC = [["  0 = TS 4", "  0 = B 120000"], ["  0 = TS 3 3", "  0 = B 93000", "  960 = B 181500", "  960 = A 2000000"],
        ["  0 = B 60000", "  0 = TS 6", "  100 = B 200000", "  300 = TS 7 3", "junk line"]]
EVENTS = [[], ['  0 = E "section Intro"', '  384 = E "phrase_start"', '  384 = E "lyric Hel-"', '  768 = E "section Verse 1"'],
          ['  10 = E "lyric la"', "  what is this", '  20 = E "crowd_clap"']]
TRACK = [[], ["  0 = N 0 0"], ["  192 = N 0 0", "  256 = N 1 0", "  384 = N 2 96", "  384 = N 3 192", "  384 = S 2 384", "  480 = N 1 0", "  480 = N 5 0"],
         ["  0 = N 7 0", "  96 = S 2 96", "  96 = N 1 0", "  100 = E solo", "  120 = N 6 0", "  120 = N 2 0"],
         ["  0 = N 0 10", "  0 = N 1 20", "  0 = N 2 0", "  50 = N 4 0", "  60 = N 3 0", "  70 = N 3 0", "  70 = N 5 0"],
         ["  5 = N 2 0", "garbage", "  9 = S 2 1", "  9 = N 2 3"]]
BAD_TRACK = [["  10 = N 0 0", "  5 = N 1 0", "  0 = N 5 0"], ["  0 = N 5 0"], ["  0 = N 9 0"]]      # bodies whose parser raises ValueError
UNKNOWN_TAGS = ["PART VOCALS", "Foo", "ExpertGuitar", "expertsingle", "Song2", "Sync Track", "EventsX", "HardSingleX", "X"]


class _Capture(logging.Handler):
    def __init__(self):
        super().__init__()
        self.records = []

    def emit(self, record):
        self.records.append(record)


def _with_log(fn):
    lg = logging.getLogger("chartparse.chart")
    h = _Capture()
    old, prop = lg.level, lg.propagate
    lg.addHandler(h)
    lg.setLevel(logging.DEBUG)
    lg.propagate = False
    quiet = logging.getLogger("chartparse.track")
    qold = quiet.level
    quiet.setLevel(logging.CRITICAL)
    try:
        try:
            return fn(), None, h.records
        except Exception as e:
            return None, e, h.records
    finally:
        lg.removeHandler(h)
        lg.setLevel(old)
        lg.propagate = prop
        quiet.setLevel(qold)


def text_of(sections, nl="\n"):
    out = []
    for tag, body in sections:
        out += [f"[{tag}]", "{"] + list(body) + ["}"]
    return nl.join(out) + nl


def all_pairs():
    from chartparse.instrument import Instrument, Difficulty
    return [(i, d) for i in Instrument for d in Difficulty]


def tag_of(pair):
    i, d = pair
    return d.value + i.value


def gen_sync_body(rnd):
    """a valid sync section with several tempo lines early in the chart (so that the events of the other
    sections fall into different segments): exact repeats of the previous tempo, changes by one or two
    raw units (0.001 BPM - seeded C01e drops such a line from the map handed to the other sections),
    ordinary changes; tempo changes one tick apart; anchors and junk interleaved"""
    out = ["  0 = TS 4"]
    raw = rnd.choice([120000, 119998, 60000, 90000, 147253, 200000, 64001])
    tick = 0
    out.append(f"  0 = B {raw}")
    for _ in range(rnd.choice([1, 2, 3, 4, 6])):
        tick += rnd.choice([1, 2, 5, 48, 96, 192])
        raw = max(1, raw + rnd.choice([0, 1, 1, -1, 2, -2, 1000, -5000, 30000]))
        out.append(f"  {tick} = B {raw}")
        if rnd.random() < 0.2:
            out.append(f"  {tick} = A {rnd.randrange(0, 5000000)}")
        if rnd.random() < 0.15:
            out.append(f"  {tick} = TS {rnd.choice([3, 4, 6, 7])} {rnd.choice([2, 3])}")
        if rnd.random() < 0.1:
            out.append("not a sync line")
    return out


def gen_sections(rnd, allow_bad=True):
    """(sections list, want_tracks) - a well-framed file with distinct tags"""
    pairs = all_pairs()
    secs = []
    required = [("Song", rnd.choice(SONG)), ("SyncTrack", rnd.choice(SYNC) if rnd.random() < 0.5 else gen_sync_body(rnd)), ("Events", rnd.choice(EVENTS))]
    missing = None
    if rnd.random() < 0.12:
        missing = rnd.randrange(3)
        del required[missing]
    secs += required
    chosen = rnd.sample(pairs, rnd.choice([0, 1, 2, 3, 3, 4, 6, 9]))
    for p in chosen:
        body = rnd.choice(TRACK)
        if allow_bad and rnd.random() < 0.08:
            body = rnd.choice(BAD_TRACK)
        secs.append((tag_of(p), body))
    for t in rnd.sample(UNKNOWN_TAGS, rnd.choice([0, 0, 1, 2])):
        secs.append((t, rnd.choice(TRACK + EVENTS)))
    rnd.shuffle(secs)
    if rnd.random() < 0.35:
        # blank / whitespace-only lines inside bodies: unparsable lines like any other (seeded C14e: a
        # scanner that skipped empty lines while counting line indices lost the last body line)
        for k in rnd.sample(range(len(secs)), rnd.randrange(1, len(secs) + 1)) if secs else []:
            tag, body = secs[k]
            body = list(body)
            for _ in range(rnd.choice([1, 1, 2, 3])):
                body.insert(rnd.randrange(len(body) + 1), rnd.choice(["", "", "  ", "\t"]))
            secs[k] = (tag, body)
    r = rnd.random()
    if r < 0.3:
        want = None
    elif r < 0.4:
        want = []
    else:
        pool = chosen + rnd.sample(pairs, 3)
        want = rnd.sample(pool, rnd.randrange(1, min(len(pool), 5) + 1))
        if rnd.random() < 0.3:
            want = tuple(want)
    return secs, want


def reference(sections, want):
    """the statement of C06/C13, computed with the section parsers themselves"""
    import chartparse.chart as cc
    from chartparse.metadata import Metadata
    from chartparse.sync import SyncTrack
    from chartparse.globalevents import GlobalEventsTrack
    from chartparse.instrument import InstrumentTrack
    d = dict(sections)
    if not all(t in d for t in ("Song", "SyncTrack", "Events")):
        raise ValueError("missing required section")
    md = Metadata.from_chart_lines(list(d["Song"]))
    st = SyncTrack.from_chart_lines(md.resolution, list(d["SyncTrack"]))
    ge = GlobalEventsTrack.from_chart_lines(list(d["Events"]), st.bpm_events)
    by_tag = {tag_of(p): p for p in all_pairs()}
    tracks = {}
    for tag, body in sections:
        p = by_tag.get(tag)
        if p is None or (want is not None and p not in list(want)):
            continue
        tracks[p] = InstrumentTrack.from_chart_lines(p[0], p[1], list(body), st.bpm_events)
    unknown = [t for t, _ in sections if t not in by_tag and t not in ("Song", "SyncTrack", "Events")]
    return md, st, ge, tracks, unknown


def compare(chart, ref, recs):
    md, st, ge, tracks, unknown = ref
    if chart.metadata != md:
        return "[Song] feeds metadata", f"metadata {chart.metadata!r} != parser([Song] body) {md!r}"
    if chart.sync_track != st:
        return "[SyncTrack] feeds tempo and meter", f"sync track differs from parser([SyncTrack] body): {chart.sync_track!r} vs {st!r}"
    if chart.global_events_track != ge:
        return "[Events] feeds global events", f"global events differ from parser([Events] body): {chart.global_events_track!r} vs {ge!r}"
    got = {(i, d): t for i, dd in chart.instrument_tracks.items() for d, t in dd.items()}
    if set(got) != set(tracks):
        return ("instrument_tracks holds exactly the selected pairs present in the file",
                f"stored pairs {sorted(tag_of(p) for p in got)} != expected {sorted(tag_of(p) for p in tracks)}")
    for p, t in got.items():
        if (t.instrument, t.difficulty) != p:
            return "each track is labelled with its key", f"track under {tag_of(p)} is labelled {(t.instrument, t.difficulty)!r}"
        if t != tracks[p]:
            return "each header feeds the track stored under its pair", f"track {tag_of(p)} differs from parser(its own body, tempo map): {t!r} vs {tracks[p]!r}"
    for i, dd in chart.instrument_tracks.items():
        if not dd:
            return "instrument_tracks holds exactly the selected pairs present in the file", f"empty difficulty map stored for {i!r}"
    warned = [r for r in recs if r.levelno >= logging.WARNING]
    if len(warned) != len(unknown):
        return "unrecognised sections are reported (one warning each) and ignored", f"{len(warned)} warnings for unknown sections {unknown}"
    return None


def charts_equal(a, b):
    return (a.metadata == b.metadata and a.sync_track == b.sync_track and a.global_events_track == b.global_events_track
            and {(i, d): t for i, dd in a.instrument_tracks.items() for d, t in dd.items()}
            == {(i, d): t for i, dd in b.instrument_tracks.items() for d, t in dd.items()})


def one_file_case(rnd, via_path=False):
    """one generated file through the real parser; failure dict or None"""
    quiet = logging.getLogger("chartparse.track")
    old = quiet.level
    quiet.setLevel(logging.CRITICAL)
    try:
        return _one_file_case(rnd, via_path)
    finally:
        quiet.setLevel(old)


def _one_file_case(rnd, via_path=False):
    import chartparse.chart as cc
    sections, want = gen_sections(rnd)
    text = text_of(sections)
    inp = {"text": text, "want_tracks": repr(want)}

    def parse(t, w=want, bom=False):
        if not via_path:
            return cc.Chart.from_file(io.StringIO(t), want_tracks=w)
        fd, path = tempfile.mkstemp(suffix=".chart")
        try:
            with os.fdopen(fd, "wb") as f:
                f.write((b"\xef\xbb\xbf" if bom else b"") + t.encode("utf-8"))
            return cc.Chart.from_filepath(path, want_tracks=w)
        finally:
            os.unlink(path)
    try:
        ref, rexc = reference(sections, want), None
    except Exception as e:
        ref, rexc = None, e
    chart, exc, recs = _with_log(lambda: parse(text))
    if rexc is not None:
        if exc is None:
            return {"clause": f"the parse raises {type(rexc).__name__} ({rexc})"[:200], "observed": "returned a chart", "input": inp}
        if type(exc) is not type(rexc) and not (isinstance(rexc, ValueError) and isinstance(exc, ValueError)):
            return {"clause": f"the parse raises {type(rexc).__name__}", "observed": f"raised {type(exc).__name__}: {exc}"[:300], "input": inp}
        return None
    if exc is not None:
        return {"clause": "a well-framed file with the three required sections and parsable selected sections is parsed", "observed": f"raised {type(exc).__name__}: {exc}"[:300], "input": inp}
    bad = compare(chart, ref, recs)
    if bad is not None:
        return {"clause": bad[0], "observed": bad[1][:700], "input": inp}
    # ---- relations between parses
    variants = []
    perm = list(sections)
    rnd.shuffle(perm)
    variants.append(("independent of section order", text_of(perm), want, False))
    variants.append(("independent of LF versus CRLF line endings", text_of(sections, "\r\n"), want, False))
    extra = list(sections)
    extra.insert(rnd.randrange(len(extra) + 1), ("Unheard Of", rnd.choice(TRACK + EVENTS + SYNC)))
    variants.append(("independent of unrecognised sections", text_of(extra), want, False))
    if via_path:
        variants.append(("independent of a leading UTF-8 byte-order mark when read by path", text, want, True))
    by_tag = {tag_of(p): p for p in all_pairs()}
    inst = [k for k, (t, _) in enumerate(sections) if t in by_tag]
    if inst:
        # replace the body of one instrument section that is NOT selected by anything else, even invalid content
        k = rnd.choice(inst)
        victim = by_tag[sections[k][0]]
        others = [p for p in (by_tag[sections[j][0]] for j in inst) if p != victim]
        repl = list(sections)
        repl[k] = (sections[k][0], rnd.choice(TRACK + BAD_TRACK + EVENTS))
        variants.append(("the content of a non-selected section never affects the result (selection = the other tracks)", None, (sections, repl, others), False))
    for label, t, w, bom in variants:
        if t is None:
            s0, s1, sel = w
            a, ea, _ = _with_log(lambda: parse(text_of(s0), sel))
            b, eb, _ = _with_log(lambda: parse(text_of(s1), sel))
            if ea is not None or eb is not None:
                if (ea is None) != (eb is None):
                    return {"clause": label, "observed": f"original: {ea!r}; with one unselected body replaced: {eb!r}"[:400],
                            "input": {"text": text_of(s0), "text_with_replaced_body": text_of(s1), "want_tracks": repr(sel)}}
                continue
            if not charts_equal(a, b):
                return {"clause": label, "observed": "the two parses differ",
                        "input": {"text": text_of(s0), "text_with_replaced_body": text_of(s1), "want_tracks": repr(sel)}}
            continue
        other, e2, _ = _with_log(lambda: parse(t, w, bom))
        if e2 is not None:
            return {"clause": label, "observed": f"variant raised {type(e2).__name__}: {e2}"[:300], "input": dict(inp, variant_text=t)}
        if not charts_equal(chart, other):
            return {"clause": label, "observed": "the parse of the variant differs from the parse of the original", "input": dict(inp, variant_text=t)}
    # ---- selection: restricted parse = unrestricted parse restricted
    full, e3, _ = _with_log(lambda: parse(text, None))
    if e3 is None:
        got = {(i, d): t for i, dd in chart.instrument_tracks.items() for d, t in dd.items()}
        allt = {(i, d): t for i, dd in full.instrument_tracks.items() for d, t in dd.items()}
        exp = {p: t for p, t in allt.items() if want is None or p in list(want)}
        if got != exp or chart.metadata != full.metadata or chart.sync_track != full.sync_track or chart.global_events_track != full.global_events_track:
            return {"clause": "a restricted parse returns exactly the selected tracks of the unrestricted parse, everything else unchanged",
                    "observed": f"restricted pairs {sorted(tag_of(p) for p in got)}; unrestricted-and-selected {sorted(tag_of(p) for p in exp)}", "input": inp}
    return None


def partition_case(rnd):
    import chartparse.chart as cc
    sections, _ = gen_sections(rnd)
    lines = text_of(sections).splitlines()
    try:
        d = cc.Chart._partition_lines_by_data_section(lines)
        got = [(k, list(v)) for k, v in d.items()]
    except Exception as e:
        return {"clause": "a well-framed file is partitioned", "observed": f"raised {type(e).__name__}: {e}"[:300], "input": {"lines": repr(lines)}}
    want = [(t, list(b)) for t, b in sections]
    if got != want:
        return {"clause": "each section's entry is exactly the body lines between its braces, in file order", "observed": f"got {got!r}\nwant {want!r}"[:900],
                "input": {"lines": repr(lines)}}
    return None


FRAGMENTS = ["{", "}", "[Song]", "[Events]", "[SyncTrack]", "[ExpertSingle]", "[", "]", "", " ", "  0 = N 0 0", "  0 = B 120000", "  0 = TS 4", "Resolution = 192",
             "  0 = N 8 0", "  5 = S 2 0", "  0 = E \"section x\"", "  0 = B 0", "  10 = B 1", "  0 = TS 0 63", "  99999999 = N 7 99999999", "  0 = A 99999999",
             "{ ", " }", "[[x]]", "[]", "x = y"]


def fuzz_text(rnd):
    """a well-framed generated chart with 1-4 line deletions, duplications, swaps, character edits or
    inserted fragments (numeric tokens stay within 8 digits)"""
    sections, want = gen_sections(rnd, allow_bad=True)
    lines = text_of(sections).split("\n")[:-1]
    for _ in range(rnd.choice([1, 1, 2, 3, 4])):
        if not lines:
            break
        k = rnd.randrange(len(lines))
        op = rnd.randrange(6)
        if op == 0:
            del lines[k]
        elif op == 1:
            lines.insert(k, lines[k])
        elif op == 2 and k + 1 < len(lines):
            lines[k], lines[k + 1] = lines[k + 1], lines[k]
        elif op == 3 and lines[k]:
            j = rnd.randrange(len(lines[k]))
            lines[k] = lines[k][:j] + rnd.choice("{}[] =0189NSEBTA\"x\t") + lines[k][j + 1:]
        elif op == 4:
            lines.insert(k, rnd.choice(FRAGMENTS))
        else:
            lines[k] = rnd.choice(FRAGMENTS)
    return "\n".join(lines) + ("\n" if rnd.random() < 0.8 else ""), want


def _render_all(chart):
    str(chart), repr(chart)
    for o in (chart.metadata, chart.sync_track, chart.global_events_track):
        str(o), repr(o)
    evs = list(chart.sync_track.time_signature_events) + list(chart.sync_track.bpm_events.events) + list(chart.sync_track.anchor_events)
    g = chart.global_events_track
    evs += list(g.text_events) + list(g.section_events) + list(g.lyric_events)
    for dd in chart.instrument_tracks.values():
        for t in dd.values():
            str(t), repr(t)
            evs += list(t.note_events) + list(t.star_power_events) + list(t.track_events)
    for e in evs:
        str(e), repr(e)


def fuzz_case(rnd, via_path=False):
    """C18 as stated: arbitrary edited text either parses (and everything renders) or raises one
    of the three documented errors"""
    import chartparse.chart as cc
    from chartparse.exceptions import RegexNotMatchError, MissingRequiredField
    quiet = [logging.getLogger("chartparse.track"), logging.getLogger("chartparse.chart")]
    old = [q.level for q in quiet]
    for q in quiet:
        q.setLevel(logging.CRITICAL)
    try:
        text, want = fuzz_text(rnd)
        inp = {"text": text, "want_tracks": repr(want)}
        try:
            if via_path:
                fd, path = tempfile.mkstemp(suffix=".chart")
                try:
                    with os.fdopen(fd, "wb") as f:
                        f.write(text.encode("utf-8"))
                    chart = cc.Chart.from_filepath(path, want_tracks=want)
                finally:
                    os.unlink(path)
            else:
                chart = cc.Chart.from_file(io.StringIO(text), want_tracks=want)
        except (ValueError, RegexNotMatchError, MissingRequiredField):
            return None
        except Exception as e:
            return {"clause": "parsing arbitrary text returns a chart or raises ValueError, RegexNotMatchError or MissingRequiredField",
                    "observed": f"raised {type(e).__name__}: {e}"[:300], "input": inp}
        try:
            _render_all(chart)
        except Exception as e:
            return {"clause": "every returned chart and every event in it renders with str() and repr()",
                    "observed": f"rendering raised {type(e).__name__}: {e}"[:300], "input": inp}
        return None
    finally:
        for q, lv in zip(quiet, old):
            q.setLevel(lv)


def partition_fuzz_case(rnd):
    import chartparse.chart as cc
    from chartparse.exceptions import RegexNotMatchError
    text, _ = fuzz_text(rnd)
    lines = text.splitlines()
    try:
        d = cc.Chart._partition_lines_by_data_section(lines)
        for v in d.values():
            list(v)
    except RegexNotMatchError:
        return None
    except Exception as e:
        return {"clause": "the section scanner raises nothing but RegexNotMatchError on arbitrary lines", "observed": f"raised {type(e).__name__}: {e}"[:300],
                "input": {"lines": repr(lines)}}
    return None


def _both(a, b):
    def f(rnd):
        return a(rnd) or b(rnd)
    return f


def attach(reg):
    for inst in ("sections", "required-sections", "routing"):
        try:
            reg.by_name(f"chartparse.chart:Chart.from_file[{inst}]").native_search = lambda rnd: one_file_case(rnd, False)
        except KeyError:
            pass
    for name, fn in (("chartparse.chart:Chart.from_file[safety]", lambda rnd: fuzz_case(rnd, False)),
                     ("chartparse.chart:Chart.from_filepath[safety]", _both(lambda rnd: fuzz_case(rnd, True), lambda rnd: one_file_case(rnd, True))),
                     ("chartparse.chart:Chart._partition_lines_by_data_section", partition_case),
                     ("chartparse.chart:Chart._partition_lines_by_data_section[safety]", partition_fuzz_case)):
        try:
            reg.by_name(name).native_search = fn
        except KeyError:
            pass
