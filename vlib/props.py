"""Which units (functions under contract, lemmas, regex and frame obligations) decide which property."""
from __future__ import annotations

EXTRA = {}

# Properties stated over the whole parse call tree: their check also discharges the contract of
# every callee applied at a call site (transitively), not only the units tagged with the property.
CLOSED_OVER_CALLEES = {"C18"}      # prop -> [(kind, name)] filled by the engines' registration below


def plan(prop, reg, tier):
    units = []
    for c in reg.all():
        if prop in c.props and not c.trusted:
            units.append(("pyvc", c.name))
    for mod in ("lemmas.plan", "rxvc.plan", "fxvc.plan"):
        try:
            import importlib
            m = importlib.import_module(mod)
        except ModuleNotFoundError as e:
            if mod.split(".")[0] in str(e) or mod in str(e):
                continue
            raise
        units.extend(m.units_for(prop, reg, tier))
    return units
