"""./check entry point: decide one property, write evidence, print the verdict lines."""
from __future__ import annotations

import argparse
import hashlib
import json
import multiprocessing as mp
import os
import subprocess
import sys
import time
import traceback

HERE = os.path.dirname(os.path.dirname(os.path.abspath(__file__)))
REPO = os.environ.get("CHARTPARSE_REPO", "/repo")

TRUSTED_BASE = [
    "T1 CPython 3.12 semantics of the translated subset as encoded in pyvc (DESIGN 3)",
    "T2 z3 5.1 (python API) and cvc5 1.0.3 (CLI) as SMT back ends",
    "T3 assumed library contracts (re, int(str), round, timedelta, splitlines, islice, dataclasses, enum, lru_cache/cached_property, logging) - listed per run under assumptions",
    "T4 IEEE-754 binary64 modelled as correctly rounded reals (RN) in the normal range; range obligations generated per operation",
    "T5 sidecar contracts transcribe the property statement (contracts/*.py)",
    "T6 a function applied through its contract modifies nothing reachable from its arguments or from module state (no modifies clause in the contracts: this is the frame obligation fx/<fn>/modifies-only-objects-it-allocates, discharged for every function of the package under C17, not re-discharged per property)",
]

_worker_state = {}


def _init_worker():
    import contracts
    from pyvc.source import SourceIndex
    _worker_state["reg"] = contracts.build_registry()
    _worker_state["idx"] = SourceIndex()


def _run_unit(args):
    kind, name, timeout_ms, seed = args
    t0 = time.time()
    try:
        if "reg" not in _worker_state:
            _init_worker()
        reg, idx = _worker_state["reg"], _worker_state["idx"]
        if kind == "pyvc":
            from pyvc.verify import decide_unit
            c = reg.by_name(name)
            r = decide_unit(reg, idx, c, timeout_ms=timeout_ms, seed=seed)
            d = {k: v for k, v in r.__dict__.items() if not k.startswith("_")}
            d["engine"] = "pyvc"
            return d
        mod, fn = kind.split(":")
        import importlib
        m = importlib.import_module(mod)
        d = getattr(m, fn)(reg, idx, name, timeout_ms=timeout_ms, seed=seed)
        return d
    except Exception as e:
        return {"name": name, "engine": kind, "status": "error", "reason": "".join(traceback.format_exception(e))[-2000:],
                "obligations": [], "assumptions": [], "callees": [], "notes": [], "seconds": time.time() - t0, "sha": "", "paths": 0}


def _cross_check(args):
    name, seed = args
    try:
        if "reg" not in _worker_state:
            _init_worker()
        from vlib import native
        t0 = time.time()
        f = native.search(_worker_state["reg"], {"name": name, "engine": "pyvc"}, seed, budget=6000, deadline_s=45)
        return {"unit": name, "ran": True, "kind": "bounded: native cross-check of a proved unit (generated inputs, real function, native contract evaluator)",
                "budget": 6000, "seconds": round(time.time() - t0, 2), "failing": f}
    except Exception as e:
        return {"unit": name, "ran": False, "reason": repr(e)[:300], "failing": None}


def repo_tree_hash():
    try:
        out = subprocess.run(["git", "-C", REPO, "rev-parse", "HEAD"], capture_output=True, text=True).stdout.strip()
        dirty = subprocess.run(["git", "-C", REPO, "status", "--porcelain", "--", "chartparse"], capture_output=True, text=True).stdout
        h = hashlib.sha256()
        for root, _, files in sorted(os.walk(os.path.join(REPO, "chartparse"))):
            for f in sorted(files):
                if f.endswith(".py"):
                    h.update(open(os.path.join(root, f), "rb").read())
        return {"head": out, "dirty": bool(dirty.strip()), "sources_sha256": h.hexdigest()[:16]}
    except Exception:
        return {}


def load_known_findings():
    path = os.path.join(HERE, "KNOWN_FINDINGS")
    findings, fixed = [], []
    if os.path.exists(path):
        for line in open(path):
            line = line.strip()
            if line.startswith("finding:"):
                d = dict(kv.split("=", 1) for kv in line[len("finding:"):].split() if "=" in kv)
                d["_line"] = line
                findings.append(d)
            elif line.startswith("fixed:"):
                fixed.append(line)
    return findings, fixed


def plan_for(prop, reg, tier):
    """List of (kind, unit name) serving a property."""
    from vlib import props
    return props.plan(prop, reg, tier)


def main(argv=None):
    ap = argparse.ArgumentParser()
    ap.add_argument("prop", nargs="?")
    ap.add_argument("--tier", default=os.environ.get("VERIF_TIER", "quick"))
    ap.add_argument("--replay")
    ap.add_argument("--jobs", type=int, default=int(os.environ.get("VERIF_JOBS", "16")))
    ap.add_argument("--list", action="store_true")
    a = ap.parse_args(argv)
    if a.replay:
        from vlib import replay
        return replay.run_replay_file(a.replay)
    seed = int(os.environ.get("VERIF_SEED", "0"))
    os.environ["VERIF_CURRENT_PROP"] = a.prop or ""     # read by the native evaluator (clause attribution)
    tier = a.tier if a.tier in ("quick", "thorough") else "quick"
    t0 = time.time()
    try:
        import contracts
        reg = contracts.build_registry()
        units = plan_for(a.prop, reg, tier)
    except Exception as e:
        print("check: cannot build the plan:", "".join(traceback.format_exception(e))[-3000:], file=sys.stderr)
        return 3
    if a.list:
        for k, n in units:
            print(k, n)
        return 0
    if not units:
        print(f"check: no obligations planned for {a.prop}", file=sys.stderr)
        return 3
    timeout_ms = 20000 if tier == "quick" else 120000
    jobs = [(k, n, timeout_ms, seed) for k, n in units]
    ctx = mp.get_context("fork")
    with ctx.Pool(min(a.jobs, len(jobs))) as pool:
        results = pool.map(_run_unit, jobs, chunksize=1)
        # Dependency closure (properties about the whole call tree, see props.CLOSED_OVER_CALLEES):
        # a caller is checked against its callees' contracts, so the no-escape argument of such a
        # property also needs every contract applied at a call site to be discharged.  Callee
        # units not tagged with the property are run as dependencies; of their obligations only
        # the safety kinds can become violations of THIS property (verdict.DEP_KINDS).
        from vlib import props as _props
        if a.prop in _props.CLOSED_OVER_CALLEES:
            have = {n for _, n in units}
            while True:
                new = []
                for r in results:
                    for cn in r.get("callees", []):
                        if cn in have:
                            continue
                        try:
                            c = reg.by_name(cn)
                        except KeyError:
                            continue
                        if c.trusted:
                            continue
                        have.add(cn)
                        new.append(cn)
                if not new:
                    break
                more = pool.map(_run_unit, [("pyvc", n, timeout_ms, seed) for n in new], chunksize=1)
                for r in more:
                    r["dependency"] = True
                results.extend(more)
        # Thorough tier: native cross-check of every unit whose obligations were all discharged:
        # generated inputs through the REAL function, the contract evaluated by the independent
        # exact-arithmetic interpreter.  Bounded (reported separately, never counted as proof); a
        # failing input here is a counterexample on the real code to a clause the prover accepted.
        if tier == "thorough":
            todo = [r["name"] for r in results if r.get("engine") == "pyvc" and r["status"] == "ok" and not r.get("dependency")
                    and all(o["status"] == "discharged" for o in r["obligations"])]
            cross = pool.map(_cross_check, [(n, seed) for n in todo], chunksize=1)
            by = {c["unit"]: c for c in cross}
            for r in results:
                if r["name"] in by:
                    r["cross_check"] = by[r["name"]]
            # frame units: the native history scripts (read-only use, history independence, one-shot
            # iterators, concurrent parses) on the tree as it is
            fx = [r for r in results if r.get("engine") == "fxvc" and r["status"] == "ok"]
            if fx:
                try:
                    from vlib import native_frames
                    fx[0]["cross_checks"] = native_frames.cross_check()
                except Exception as e:
                    fx[0].setdefault("notes", []).append("history cross-check failed to run: " + repr(e)[:200])
    from vlib import verdict
    return verdict.conclude(a.prop, tier, seed, results, time.time() - t0, reg)


if __name__ == "__main__":
    sys.exit(main())
