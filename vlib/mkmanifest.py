"""Regenerates /verif/MANIFEST.json from the table below (python -m vlib.mkmanifest)."""
import json
import os

HERE = os.path.dirname(os.path.dirname(os.path.abspath(__file__)))
NOTE = ("trusted base: T1 CPython semantics of the translated subset as encoded in pyvc; T2 z3/cvc5; T3 assumed library contracts "
        "(re, int(str), round, timedelta, splitlines, islice, dataclasses, enum, lru_cache/cached_property, logging); "
        "T4 floats as correctly rounded reals in the normal range (range obligations generated); T5 sidecar contracts transcribe the statement. "
        "Each run lists the assumptions it actually used in evidence.assumptions.")

CLAIMS = {
    "C01": ("pyvc VCs over the real bodies (tick, time, sync, track builders, all event constructors) + SMT lemmas L1 (induction over tempo segments), L2, S3",
            "Every event constructor and the public query return TS(be, tick) (postconditions proved from the real bodies, callers checked against callee contracts); "
            "lemma L1 bounds |TS - exact tempo-map time| by (segments traversed)*(1/2 us + 1 ns) for all maps, resolutions and ticks (time < 1e6 s); tick 0 is time 0.",
            "7.0, C01"),
    "C02": ("pyvc VCs (grouping loop with ghost runs, Note.from_parsed_datas, dispatcher filter-map) + SMT lemmas over the builder's postcondition",
            "One event per distinct tick, strictly increasing, lanes exactly the lanes written: loop invariants with ghost run bounds proved for all inputs; property lemmas derive the statement over 'the data of a tick'.",
            "7.1, C02"),
    "C03": ("pyvc VCs (complex_sustain_from_parsed_datas, _refined_sustain_tuple, is_5_note, _longest_sustain, end tick/time, last_note_end_timestamp) + SMT lemmas",
            "Sustain shape and per-lane lengths, longest sustain, end tick, end time = TS(end tick) >= start (L2), last-note-end = maximum end timestamp / None iff no notes; all lane/length patterns, canonical line order (open first, one line per index).",
            "C03"),
    "C04": ("pyvc VCs (_compute_hopo_state, note_duration_to_ticks, is_chord, flag collection) + SMT lemma",
            "HOPO/strum/tap decision table proved for all resolutions (threshold = (res+1)//3 = round(res/3)), distances, note pairs and flags; previous note = previous tick group (grouping invariant).",
            "C04"),
    "C05": ("pyvc VCs (_compute_star_power_data loop, SpecialEvent predicates, cursor threading) + SMT lemma L5",
            "Half-open membership and first-covering-phrase index for phrases ordered by start tick; the carried cursor is proved invisible (invariant: every phrase before the cursor has ended).",
            "C05"),
    "C07": ("rxvc SMT-regex obligations on the shipped N/S/E patterns (accept, capture competitors with markers, shape) + pyvc VCs of the three from_chart_line bodies and the dispatcher",
            "For all strings: every canonical N/S 2/E line is accepted and decoded with exactly the written integers / word (captures proved by the no-better-competitor queries under the assumed leftmost-priority contract of re); lines of any other shape are rejected; decoders map groups to fields in the stated order.",
            "7.2, C07"),
    "C08": ("rxvc obligations on B/TS/A + pyvc VCs (BPMEvent.from_parsed_data incl. the three-decimal validation, TimeSignatureEvent/AnchorEvent constructors)",
            "B <n> accepted for every n (<= 1e11) and bpm == RN(n/1000) (nearest float; validation proved never to reject it: z3+cvc5), TS u [l] -> u / 2**l (default 4), A <us> -> exactly us microseconds; ticks/values preserved for any digit count. Holds after the fix: commit eebc1c4.",
            "C08"),
    "C09": ("rxvc classification/disjointness/capture obligations on the lyric/section/text patterns + kind order read from the AST + pyvc dispatcher VCs (first match wins)",
            "lyric/section/text classification and verbatim values for all event texts; each line lands in exactly one list, at its tick, in file order (dispatcher postcondition: ordered, complete filter-map per kind).",
            "C09"),
    "C10": ("rxvc obligations on the 24 shipped field patterns (captures, 276 pairwise disjointness queries, ground facts on converters/defaults) + pyvc VCs of Metadata.from_chart_lines (closures inlined, scan loop invariant)",
            "Each field decoded from its first matching line with quotes stripped / int / enum member; absent optional fields take the documented defaults; absent Resolution raises MissingRequiredField; no line can feed two fields (disjoint languages).",
            "C10"),
    "C14": ("pyvc VCs of parse_data_from_chart_lines for the three kind tuples (ghost source/position arrays: ordered complete filter-map, conservation) + SMT lemma L4 over that postcondition (insertion of an unparsable line, induction on the source index) + the framing units of Chart.from_file (each parser gets exactly its body) + rxvc pairwise disjointness",
            "Every line contributes one datum to the first kind that matches or one warning; conservation events + warnings = lines; within sync and instrument sections no string is claimed by two kinds. The 'inserting / deleting / moving unparsable lines changes nothing' clause is lemma L4, mechanised over the dispatcher's postcondition texts for two runs (per kind: induction step, equal lengths, equal data; one more warning); only the induction principle itself and 'a move is a deletion followed by an insertion' are paper steps. File-level: the partition and from_file proof groups show that each section parser is given exactly its body.",
            "C14"),
    "C11": ("pyvc VCs (_index_of_proximal_event loop, timestamp_at_tick, every constructor, builders)",
            "Two-sided contract of the query (same result for every admissible hint, ValueError beyond the governing event, index = last tempo event at or before the tick); every constructor stores TS(be,tick) or raises ValueError for ANY previous event / hint, with no sortedness assumption on body lines.",
            "C11"),
    "C12": ("SMT lemmas L2/L3 over the proved postconditions + S3 by self-composition of the real seconds_from_ticks_at_bpm body",
            "TS(be,.) non-decreasing for all tempo maps and tick pairs, equal ticks equal times, strict when bpm*res <= 3e7; every stored time is TS of its tick (C01 contracts).",
            "C12"),
    "C15": ("pyvc exceptional postconditions, two-sided where the property demands raising",
            "BPMEvents/SyncTrack validators, strictly increasing tempo ticks, zero tempo, negative tick: ValueError proved to be raised from SyncTrack.from_chart_lines for a corruption at any position (conditions stated over the section's lines).",
            "C15"),
    "C16": ("pyvc VCs (Chart.notes_per_second, _notes_per_second, last_note_end_timestamp)",
            "Rate = count of notes with start time in the closed interval / interval seconds (each float operation correctly rounded), bound resolution for tick/timestamp/omitted forms, ValueError for absent track, no notes, non-positive interval.",
            "C16"),
    "C17": ("fxvc modular frame analysis of every function of the package (write sites classified by ownership), memo purity, no mutable module/class/default state, no nondeterministic source",
            "Every function modifies only objects it allocates (47 write sites, all local accumulators or self in __init__); the four lru_cache functions and five cached properties are pure and keyed by all arguments; no module-level, class-level or default-argument mutable object is written or shared; hence a parse is a function of (text, selection) alone. The thread-interleaving clause is a corollary under the documented thread-safety of lru_cache/logging: schedules themselves are not modelled by this family.",
            "7.3, C17"),
    "C19": ("fxvc frame obligations on the read-only API + ground facts on the live classes + pyvc VC of Chart.__getitem__",
            "modifies-nothing for every query/rendering/comparison function, no auto-inserting mapping outside the per-call ParsedDataMap, cached-property memos outside equality/repr, 27 frozen dataclasses reject assignment. Holds after the fix: commit 5705560 (the defaultdict allocation is reported on the original tree).",
            "C19"),
}

CLAIMS.update({
    "C06": ("pyvc VCs of Chart._partition_lines_by_data_section (ghost section table, loop invariant) and of the real Chart.from_file body in three proof units "
            "(sections, required-sections, routing) against callee contracts + Chart.from_filepath + rxvc header-pattern obligations + SMT lemmas over the from_file postcondition",
            "For every well-framed file (any number of sections, distinct tags, any bodies): each section's parser receives exactly its body lines; Song/SyncTrack/Events feed metadata/tempo/global events; "
            "every header naming a (instrument, difficulty) pair (table proved to be the 40 '<Difficulty><Instrument>' names, injective) feeds the track stored under and labelled with that pair; "
            "a missing required section raises ValueError (two-sided). Order independence, unknown-section independence (and the warning) are lemmas over that postcondition "
            "(assuming congruence: a section parser's result depends on the content of its lines only). The one-shot iterators handed to the section parsers are proved to be consumed at most once (frame obligations). "
            "LF/CRLF and BOM independence rest on the ASSUMED library contracts of str.splitlines and open(encoding='utf-8-sig') (listed in evidence.assumptions); the call sites are checked to use them.",
            "C06"),
    "C13": ("pyvc VCs of the real Chart.from_file routing loop (selection filter, per-section track construction via the callee's result function) + SMT lemmas over the postcondition + fxvc frames",
            "instrument_tracks holds exactly the selected pairs present in the file (None selects all, an empty selection none), each equal to InstrumentTrack.from_chart_lines(pair, its own body, tempo map) - "
            "the same value an unrestricted parse stores; metadata, sync track and global events do not mention the selection. Non-interference: each track is a function of its own section body and the shared tempo map only "
            "(result-function arguments), and the frame analysis shows no other channel; a non-selected section's body is never passed to a parser.",
            "C13"),
    "C18": ("pyvc safety-mode VCs: every function on the parse path re-verified under WEAK preconditions (arbitrary lines, only the token bounds of the statement) with an escape obligation per exception class at every raising operation; "
            "rendering units for every package-defined __str__/__repr__ per concrete class",
            "For arbitrary text within the stated token bounds only ValueError, RegexNotMatchError or MissingRequiredField can escape Chart.from_file/from_filepath (every subscript, dict lookup, int(), division, unpacking, "
            "Optional use, enum construction and assert on the path has a discharged no-escape obligation); str()/repr() of the chart, its tracks and every event cannot raise for any field values of the declared types "
            "(library rendering of builtins and dataclass-generated __repr__ assumed total).",
            "C18"),
})

NOT_YET = {}


def main():
    props = [json.loads(l) for l in open(os.path.join(HERE, "properties.jsonl"))]
    checks = []
    na = [{"property_id": "C20", "reason": "quantifies over client import orders, a closed behaviour of the interpreter's module-initialisation protocol; no function contract can state it, and deciding it is enumeration or model checking, not contract verification"}]
    for p in props:
        pid = p["id"]
        if pid == "C20":
            continue
        if pid in CLAIMS:
            tech, text, ref = CLAIMS[pid]
            checks.append({
                "property_id": pid,
                "quick_cmd": f"./check {pid} --tier quick",
                "thorough_cmd": f"./check {pid} --tier thorough",
                "evidence_file": f"/verif/evidence/{pid}.json",
                "replay_cmd_template": "./check --replay {path}",
                "engine": "contract-vc",
                "level_claimed": {"category": "proof", "text": text, "design_ref": ref},
                "level_note": NOTE,
                "technique": "contract-based deductive verification: " + tech,
            })
        else:
            na.append({"property_id": pid, "reason": NOT_YET.get(pid, "check not built yet (framework under construction); will be claimed once its obligations are generated and discharged")})
    m = {
        "version": 1,
        "setup_cmd": "./setup.sh",
        "hooks": {
            "guard": "CHARTPARSE_VERIF",
            "enable": "no hooks: contracts are sidecar files in /verif keyed by module:qualname; /repo sources are read and translated, never instrumented",
            "baseline_off_cmd": "cd /repo && /venv/bin/python -m pytest -ra -q -p no:cacheprovider --timeout=900 --continue-on-collection-errors",
            "source_commits": [],
            "add_only": True,
        },
        "engines": [
            {"name": "contract-vc", "path": "/verif/check", "serves_properties": sorted(CLAIMS),
             "kind_free_text": "pyvc: verification-condition generator over the real chartparse AST (re-read every run) against sidecar contracts, discharged by z3/cvc5; lemmas over the contracts; rxvc regex obligations; fxvc frame/escape obligations"},
        ],
        "checks": checks,
        "notes": "Exit 0 held / 1 violation (VIOLATION line, replay file) / 3 checker problem. Undecided obligations are never violations: the run exits 0 with evidence level 'other' "
                 "after the bounded stand-in of the undecided unit found no failing input. Thorough tier: 120 s per obligation, large bounded budgets, and a native cross-check "
                 "(generated inputs through the real function against the contract) of every unit whose obligations were discharged; bounded results are reported separately and never counted as proof. "
                 "/repo fix: commits are listed in KNOWN_FINDINGS. Seeded changes and behaviour-preserving refactorings used to test the checks: /verif/seeded (DESIGN.md 8.3).",
        "not_applicable": na,
    }
    json.dump(m, open(os.path.join(HERE, "MANIFEST.json"), "w"), indent=1)
    print("checks:", len(checks), "not_applicable:", len(na))


if __name__ == "__main__":
    main()
