"""Track-level native search for the note family (C01-C05, C11, C12): structured instrument sections
run through the REAL `InstrumentTrack.from_chart_lines` with a real tempo map and compared with a
reference written from the property statements (C02 lanes and grouping, C03 lengths / end tick / end
time / last note end, C04 strum-HOPO-tap, C05 star power membership, C01/C11/C12 times = the spec
function TS of the tick).

Why it exists: the unit-level stand-in draws the arguments of one function independently at random,
so a fault that needs a HISTORY (a note that restates a subset of the previous chord with the same
lengths; a long sustain outlasting later notes; a phrase ending exactly on a note) is practically
never generated (seeded C02d was missed that way).  The sections generated here are built from such
relations between consecutive tick groups.

Used (a) as the second stage of the bounded stand-in of every note-family unit that is undecided
and (b) to find a failing input for a refuted obligation whose model does not replay.  Bounded:
never counted as proof.  Only the aspects that belong to the property being checked are compared
(VERIF_CURRENT_PROP), mirroring Contract.clause_props."""
from __future__ import annotations

import datetime
import os

ASPECTS = {
    "C01": {"time", "endtime"}, "C11": {"time", "endtime"}, "C12": {"time", "endtime", "order"},
    "C02": {"group", "lanes"}, "C03": {"lanes", "sustain", "endtime", "time", "last"},
    "C04": {"lanes", "hopo"}, "C05": {"sp"},
    "C13": {"group", "lanes", "sustain", "hopo", "sp", "time", "endtime"}, "C14": {"group", "lanes", "sustain", "hopo", "sp"},
    "C07": {"group", "lanes", "sustain"}, "C16": {"last", "time"},
}
ALL = {"group", "lanes", "sustain", "endtime", "time", "last", "hopo", "sp", "order"}

JUNK = ["", "   ", "garbage", "  12 = X 1 2", "  9 = N 8 0", "  4 = S 64 10", "  3 = E two words", "N 0 0", "{"]


def gen_section(rnd):
    """-> (resolution, tempo lines [(tick, raw)], section lines, note groups, phrases) with the groups/phrases
    as written (the reference is computed from them, not from the library's decoding)"""
    res = rnd.choice([1, 2, 3, 5, 96, 100, 192, 192, 480, 481])
    third = (res + 1) // 3
    # tempo map
    tempo, t = [(0, rnd.choice([120000, 60000, 90000, 150000, 147253, 200000]))], 0
    for _ in range(rnd.choice([0, 0, 1, 2, 3])):
        t += rnd.choice([1, res, 2 * res, res + 1, 5 * res])
        tempo.append((t, rnd.choice([120000, 60000, 90000, 150000, 33333, 250000])))
    change_ticks = [tk for tk, _ in tempo[1:]]
    # note groups
    groups, tick = [], rnd.choice([0, 0, 1, res, 3 * res])
    prev = None
    for _ in range(rnd.choice([0, 1, 2, 3, 4, 6, 9])):
        kind = rnd.choice(["single", "chord", "open", "same", "subset", "superset", "same", "subset", "flags-only"] if prev else
                          ["single", "chord", "open", "chord3", "chord3"])
        if kind == "open":
            lanes = None
        elif kind == "flags-only":
            lanes = ()
        elif kind == "single":
            lanes = (rnd.randrange(5),)
        elif kind in ("chord", "chord3"):
            lanes = tuple(sorted(rnd.sample(range(5), rnd.choice([3, 4, 5] if kind == "chord3" else [2, 2, 3, 4, 5]))))
        elif kind == "same":
            lanes = prev["lanes"]
        elif kind == "subset":
            pl = prev["lanes"] or ()
            lanes = tuple(sorted(rnd.sample(pl, rnd.randrange(1, len(pl))))) if len(pl) >= 2 else pl
        else:
            pl = set(prev["lanes"] or ())
            rest = [l for l in range(5) if l not in pl]
            lanes = tuple(sorted(pl | set(rnd.sample(rest, rnd.randrange(1, len(rest) + 1))))) if rest else tuple(sorted(pl))
        # lengths
        if lanes is None:
            lens, open_len = {}, rnd.choice([0, 0, 10, res, 7 * res])
        else:
            open_len = None
            mode = rnd.choice(["zero", "uniform", "differ", "prev", "prev", "long"])
            if mode == "prev" and prev and prev["lanes"]:
                lens = {l: prev["lens"].get(l, rnd.choice([0, 5, res])) for l in lanes}
            elif mode == "zero":
                lens = {l: 0 for l in lanes}
            elif mode == "uniform":
                u = rnd.choice([1, 10, res, 2 * res])
                lens = {l: u for l in lanes}
            elif mode == "long":
                u = rnd.choice([6 * res, 20 * res, 50 * res])
                lens = {l: u for l in lanes}
            else:
                lens = {l: rnd.choice([0, 1, 5, res, 3 * res, 9 * res]) for l in lanes}
        forced = rnd.random() < 0.25 and bool(groups)      # a forced first note is rejected by the library (tested): keep files parsable
        tap = rnd.random() < 0.15
        g = dict(tick=tick, lanes=lanes, lens=lens, open_len=open_len, forced=forced, tap=tap,
                 flag_len=rnd.choice([0, 0, 7, 96]))
        groups.append(g)
        if lanes:
            prev = g
        elif lanes is None:
            prev = dict(g, lanes=())
        step = rnd.choice([1, third, third, third + 1, max(1, third - 1), res, 2 * res, 4 * res])
        if change_ticks and rnd.random() < 0.3:
            # land exactly on / one tick before / after a tempo change when possible
            later = [c + d for c in change_ticks for d in (-1, 0, 1) if c + d > tick]
            if later:
                step = min(later) - tick
        tick += max(1, step)
    # star power phrases (sorted by start tick)
    phrases, pt = [], rnd.choice([0, 0, res])
    note_ticks = [g["tick"] for g in groups]
    for _ in range(rnd.choice([0, 0, 1, 2, 3, 4])):
        if note_ticks and rnd.random() < 0.6:
            later = [x for x in note_ticks if x >= pt]
            pt = rnd.choice(later) if later else pt
        ln = rnd.choice([0, 1, res, 3 * res, 10 * res])
        if note_ticks and rnd.random() < 0.4:
            ends = [x - pt for x in note_ticks if x >= pt]
            if ends:
                ln = rnd.choice(ends)        # a phrase ending exactly on a note's tick (or zero-length on it)
        phrases.append((pt, ln))
        pt += rnd.choice([0, 1, ln, ln + 1, ln + res, max(0, ln - 1)])
    # lines: note lines in tick order (lanes / open first, then flags); S lines in tick order; E and junk anywhere
    nlines = []
    for g in groups:
        ls = []
        if g["lanes"] is None:
            ls.append(f"  {g['tick']} = N 7 {g['open_len']}")
        else:
            order = list(g["lanes"])
            if rnd.random() < 0.3:
                rnd.shuffle(order)
            ls += [f"  {g['tick']} = N {l} {g['lens'][l]}" for l in order]
        fl = []
        if g["forced"]:
            fl.append(f"  {g['tick']} = N 5 {g['flag_len']}")
        if g["tap"]:
            fl.append(f"  {g['tick']} = N 6 {g['flag_len']}")
        if g["lanes"] == () and not fl:
            fl.append(f"  {g['tick']} = N 6 {g['flag_len']}")
            g["tap"] = True
        nlines.append(ls + fl)
    slines = [f"  {a} = S 2 {b}" for a, b in phrases]
    lines = []
    si = 0
    etick = 0
    for grp in nlines:
        for ln in grp:
            while si < len(slines) and rnd.random() < 0.3:
                lines.append(slines[si])
                si += 1
            if rnd.random() < 0.15:
                etick += rnd.choice([0, 1, res])
                lines.append(rnd.choice(JUNK) if rnd.random() < 0.5 else f"  {etick} = E solo")
            lines.append(ln)
    lines += slines[si:]
    return res, tempo, lines, groups, phrases


def build_tempo(res, tempo):
    import chartparse.chart  # noqa
    from chartparse.sync import BPMEvent, BPMEvents
    evs = []
    for tk, raw in tempo:
        evs.append(BPMEvent.from_parsed_data(BPMEvent.ParsedData(tick=tk, raw_bpm=str(raw)), evs[-1] if evs else None, res))
    return BPMEvents(events=evs, resolution=res)


def reference(res, groups, phrases):
    """what the statements say, per tick group: lanes, sustain, longest, hopo, star power index"""
    third = (res + 1) // 3
    out, prev = [], None
    for g in groups:
        lanes = tuple(1 if (g["lanes"] and l in g["lanes"]) else 0 for l in range(5))
        if g["lanes"] is None:
            sustain = g["open_len"]
        elif not g["lanes"]:
            sustain = 0
        else:
            vals = [g["lens"][l] for l in g["lanes"]]
            sustain = vals[0] if all(v == vals[0] for v in vals) else tuple(g["lens"].get(l) for l in range(5))
        longest = sustain if isinstance(sustain, int) else max(v for v in sustain if v is not None)
        if g["tap"]:
            hopo = "TAP"
        elif prev is None:
            hopo = "STRUM"
        else:
            natural = sum(lanes) <= 1 and lanes != prev["lanes"] and g["tick"] - prev["tick"] <= third
            hopo = "HOPO" if natural != g["forced"] else "STRUM"
        sp = None
        for j, (a, b) in enumerate(phrases):
            if a <= g["tick"] < a + b:
                sp = j
                break
        r = dict(tick=g["tick"], lanes=lanes, sustain=sustain, longest=longest, hopo=hopo, sp=sp)
        out.append(r)
        prev = r
    return out


def case(rnd, aspects=None):
    """one generated section through the real code; -> failure dict or None"""
    import chartparse.chart  # noqa
    from chartparse.instrument import InstrumentTrack, Instrument, Difficulty
    from . import native
    if aspects is None:
        aspects = ASPECTS.get(os.environ.get("VERIF_CURRENT_PROP") or "", ALL)
    res, tempo, lines, groups, phrases = gen_section(rnd)
    be = build_tempo(res, tempo)
    ref = reference(res, groups, phrases)
    inp = {"resolution": res, "tempo": tempo, "lines": lines}

    def fail(clause, observed):
        return {"clause": clause, "observed": str(observed)[:500], "input": {k: repr(v)[:1500] for k, v in inp.items()},
                "how": "InstrumentTrack.from_chart_lines(GUITAR, EXPERT, lines, tempo map built by BPMEvent.from_parsed_data)"}
    import logging
    lg = logging.getLogger("chartparse.track")
    old = lg.level
    lg.setLevel(logging.CRITICAL)
    try:
        try:
            tr = InstrumentTrack.from_chart_lines(Instrument.GUITAR, Difficulty.EXPERT, iter(lines), be)
        except ValueError as e:
            return fail("a well-formed instrument section (sorted note lines, first note not forced) is parsed", f"ValueError: {e}") \
                if aspects & {"group", "lanes", "sustain", "hopo", "sp", "time"} else None
        except Exception as e:
            return fail("no other exception escapes", f"raised {type(e).__name__}: {e}")
    finally:
        lg.setLevel(old)
    evs = list(tr.note_events)
    if "group" in aspects or "lanes" in aspects:
        if [e.tick for e in evs] != [r["tick"] for r in ref]:
            return fail("one note event per distinct tick carrying note lines, in increasing tick order",
                        f"event ticks {[e.tick for e in evs]}, ticks written {[r['tick'] for r in ref]}")
    if len(evs) != len(ref):
        return None
    for e, r in zip(evs, ref):
        at = f"tick {r['tick']}"
        if "lanes" in aspects and tuple(e.note.value) != r["lanes"]:
            return fail("active lanes are exactly the lanes named by the tick's lines", f"{at}: note {e.note.value}, written {r['lanes']}")
        if "sustain" in aspects:
            if e.sustain != r["sustain"]:
                return fail("sustain = one number when all active lanes agree (or open), else the five-slot tuple of written lengths",
                            f"{at}: sustain {e.sustain!r}, written {r['sustain']!r}")
            if e.longest_sustain != r["longest"] or e.end_tick != r["tick"] + r["longest"]:
                return fail("longest sustain = maximum lane length; end tick = tick + that", f"{at}: longest {e.longest_sustain}, end_tick {e.end_tick}, want {r['longest']}, {r['tick'] + r['longest']}")
        if "time" in aspects and e.timestamp != native.TS(be, r["tick"]):
            return fail("timestamp = tempo-map time of the tick", f"{at}: {e.timestamp} vs {native.TS(be, r['tick'])}")
        if "endtime" in aspects:
            want = native.TS(be, r["tick"] + r["longest"])
            if e.end_timestamp != want:
                return fail("end timestamp = tempo-map time of tick + longest written length", f"{at}: {e.end_timestamp} vs {want}")
            if e.end_timestamp < e.timestamp:
                return fail("end timestamp is never before the start", f"{at}: {e.end_timestamp} < {e.timestamp}")
        if "hopo" in aspects and e.hopo_state.name != r["hopo"]:
            return fail("tap / first strum / natural HOPO rule with forcing", f"{at}: {e.hopo_state.name}, want {r['hopo']}")
        if "sp" in aspects:
            got = None if e.star_power_data is None else e.star_power_data.star_power_event_index
            if got != r["sp"]:
                return fail("star power data iff some phrase covers the tick (half-open); index = first such phrase", f"{at}: index {got}, want {r['sp']}; phrases {phrases}")
    if "order" in aspects:
        for a, b in zip(evs, evs[1:]):
            if a.timestamp > b.timestamp:
                return fail("timestamps non-decreasing in tick", f"ticks {a.tick}, {b.tick}: {a.timestamp} > {b.timestamp}")
    if "last" in aspects:
        want = max((native.TS(be, r["tick"] + r["longest"]) for r in ref), default=None)
        if tr.last_note_end_timestamp != want:
            return fail("last-note-end = maximum end timestamp over all notes (absent iff no notes)", f"{tr.last_note_end_timestamp} vs {want}")
    return None


NOTE_FAMILY = [
    "chartparse.instrument:Note.from_parsed_datas", "chartparse.instrument:Note.is_chord",
    "chartparse.instrument:NoteTrackIndex.is_5_note", "chartparse.instrument:_refined_sustain_tuple",
    "chartparse.instrument:complex_sustain_from_parsed_datas", "chartparse.instrument:NoteEvent._longest_sustain",
    "chartparse.instrument:NoteEvent._end_tick", "chartparse.instrument:NoteEvent.longest_sustain",
    "chartparse.instrument:NoteEvent._compute_hopo_state", "chartparse.instrument:NoteEvent._compute_star_power_data",
    "chartparse.instrument:NoteEvent.from_parsed_data", "chartparse.instrument:InstrumentTrack._build_note_events_from_data",
    "chartparse.instrument:InstrumentTrack.from_chart_lines", "chartparse.instrument:InstrumentTrack.last_note_end_timestamp",
    "chartparse.instrument:SpecialEvent.tick_is_after_event[StarPowerEvent]", "chartparse.instrument:SpecialEvent.tick_is_during_event[StarPowerEvent]",
    "chartparse.instrument:SpecialEvent.end_tick[StarPowerEvent]", "chartparse.tick:note_duration_to_ticks[EIGHTH_TRIPLET]",
]


def attach(reg):
    for name in NOTE_FAMILY:
        try:
            reg.by_name(name).extra_search = case
        except KeyError:
            pass
