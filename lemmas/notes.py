"""Property-level lemmas for the note track (C02..C05): from the (proved) postcondition of
InstrumentTrack._build_note_events_from_data, with the opaque per-event predicate NEPOST unfolded
by its definition, to the statements of the properties, phrased over 'the data of a tick'."""
from __future__ import annotations

from pyvc.values import INT, SeqS
from .core import Lemma

_done = []
LANES = range(5)


def register(reg):
    if _done:
        return
    _done.append(1)
    S = reg.S
    per_event, structure, pre = reg.note_per_event, reg.note_structure, reg.note_build_pre
    vars = dict(datas=SeqS(S["NoteData"]), star_power_events=SeqS(S["StarPowerEvent"]), bpm_events=S["BPMEvents"],
                result=SeqS(S["NoteEvent"]), g_lo=SeqS(INT), g_hi=SeqS(INT), g_c=SeqS(INT), g_run=SeqS(INT))
    n = "len(result)"
    base = [t for _, t in pre] + [t for _, t in structure("result", "len(datas)")]
    sd = dict(structure("result", "len(datas)"))

    def struct(*names):
        return [sd[x] for x in names]
    light = struct("ghost-lengths", "runs-nonempty-adjacent")
    # definition of NEPOST (the name of NoteEvent.from_parsed_data's postcondition), unfolded for every event
    def reveal(*only):
        # the outer index must not be captured by the clauses' own lambda variables (k, i, j)
        return f"forall(0, {n}, lambda ev_: {per_event('result', 'ev_', True, only)})"
    uses = ["chartparse.instrument:InstrumentTrack._build_note_events_from_data/post/*",
            "chartparse.instrument:NoteEvent.from_parsed_data/post/* (definition of NEPOST)"]
    idx = lambda j: f"datas[{j}].note_track_index.value"
    in_run = lambda k, j: f"(g_lo[{k}] <= {j} and {j} < g_hi[{k}])"
    same_tick = lambda k, j: f"datas[{j}].tick == result[{k}].tick"
    run_is_tick = f"forall(0, {n}, lambda k: forall(0, len(datas), lambda j: iff({same_tick('k', 'j')}, {in_run('k', 'j')})))"

    Lemma("notes-run-is-the-data-of-one-tick", vars, base, [
        ("run-k-is-exactly-the-data-with-event-k-tick", run_is_tick),
        ("every-datum-has-its-event", f"forall(0, len(datas), lambda j: exists(0, {n}, lambda k: {same_tick('k', 'j')}))"),
        ("every-event-has-a-datum", f"forall(0, {n}, lambda k: exists(0, len(datas), lambda j: {same_tick('k', 'j')}))"),
        ("one-event-per-tick", f"forall(0, {n}, lambda a: forall(0, {n}, lambda b: implies(result[a].tick == result[b].tick, a == b)))"),
        ("strictly-increasing-ticks", f"forall(0, {n} - 1, lambda k: result[k].tick < result[k + 1].tick)"),
    ], ["C02", "C03", "C04", "C05"], uses=uses, note="the ghost runs are an implementation detail: a run is exactly the set of data sharing the event's tick")

    with_runs = light + [run_is_tick]
    uses2 = uses + ["lemma:notes-run-is-the-data-of-one-tick"]
    Lemma("C02-lanes-are-exactly-the-lanes-written", vars, with_runs + [reveal("lane", "bits")], [
        (f"lane{l}", f"forall(0, {n}, lambda k: iff(result[k].note.value[{l}] == 1, exists(0, len(datas), lambda j: {same_tick('k', 'j')} and {idx('j')} == {l})))")
        for l in LANES] + [
        ("lane-bits", f"forall(0, {n}, lambda k: " + " and ".join(f"(result[k].note.value[{l}] == 0 or result[k].note.value[{l}] == 1)" for l in LANES) + ")"),
    ], ["C02"], uses=uses2)

    s = "result[k].sustain"
    Lemma("C03-sustains-are-the-written-lengths", vars, with_runs + [reveal("tick", "open", "each-lane-length", "inactive-slots-empty", "no-lanes-is-zero", "tuple-", "end-time")], [
        ("open-note-length", f"forall(0, {n}, lambda k: implies({idx('g_lo[k]')} == 7, tag({s}) == 0 and alt({s}, 0) == datas[g_lo[k]].sustain))"),
        ("each-lane-length", f"forall(0, {n}, lambda k: implies({idx('g_lo[k]')} != 7, forall(0, len(datas), lambda j: implies({same_tick('k', 'j')} and 0 <= {idx('j')} <= 4, "
                             f"implies(tag({s}) == 0, alt({s}, 0) == datas[j].sustain) and implies(tag({s}) == 1, alt({s}, 1)[{idx('j')}] == datas[j].sustain)))))"),
        ("inactive-lanes-have-nothing", f"forall(0, {n}, lambda k: implies({idx('g_lo[k]')} != 7 and tag({s}) == 1, " + " and ".join(
            f"implies(alt({s}, 1)[{l}] is not None, exists(0, len(datas), lambda j: {same_tick('k', 'j')} and {idx('j')} == {l}))" for l in LANES) + "))"),
        ("one-number-iff-lanes-agree", f"forall(0, {n}, lambda k: implies({idx('g_lo[k]')} != 7 and tag({s}) == 1, exists(0, len(datas), lambda i: exists(0, len(datas), lambda j: "
                                       f"{same_tick('k', 'i')} and {same_tick('k', 'j')} and 0 <= {idx('i')} <= 4 and 0 <= {idx('j')} <= 4 and datas[i].sustain != datas[j].sustain))))"),
        ("end-time-is-time-of-end-tick-uniform", f"forall(0, {n}, lambda k: implies(tag({s}) == 0, result[k].end_timestamp == TS(bpm_events, result[k].tick + alt({s}, 0))))"),
    ] + [
        (f"end-time-is-time-of-end-tick-lane{l}", f"forall(0, {n}, lambda k: implies(tag({s}) == 1 and alt({s}, 1)[{l}] is not None and " +
         " and ".join(f"(alt({s}, 1)[{m}] is None or alt({s}, 1)[{m}] <= alt({s}, 1)[{l}])" for m in LANES if m != l) +
         f", result[k].end_timestamp == TS(bpm_events, result[k].tick + alt({s}, 1)[{l}])))") for l in LANES
    ], ["C03"], uses=uses2, note="flag data (indices 5, 6) never contribute: only data with index 0..4 (or the open datum) are mentioned")

    tap = lambda k: f"exists(0, len(datas), lambda j: {same_tick(k, 'j')} and {idx('j')} == 6)"
    forced = lambda k: f"exists(0, len(datas), lambda j: {same_tick(k, 'j')} and {idx('j')} == 5)"
    lanes_k = " + ".join(f"result[k].note.value[{l}]" for l in LANES)
    Lemma("C04-strum-hopo-tap", vars, with_runs + [reveal("tick", "tap", "first-is-strum", "natural-hopo")], [
        ("tap-flag-is-tap", f"forall(0, {n}, lambda k: implies({tap('k')}, result[k].hopo_state.value == 2))"),
        ("first-note-is-strum", f"implies({n} > 0 and not ({tap('0')}), result[0].hopo_state.value == 0)"),
        ("natural-hopo-rule-and-forcing", f"forall(1, {n}, lambda k: implies(not ({tap('k')}), result[k].hopo_state.value == (1 if (({lanes_k} <= 1 "
                                          f"and result[k].note != result[k - 1].note and result[k].tick - result[k - 1].tick <= (bpm_events.resolution + 1) // 3) != ({forced('k')})) else 0)))"),
    ], ["C04"], uses=uses2)

    spe = "star_power_events"
    covers = lambda j, k: f"({spe}[{j}].tick <= result[{k}].tick and result[{k}].tick < {spe}[{j}].tick + {spe}[{j}].sustain)"
    ordered = f"forall(0, len({spe}), lambda a: forall(a + 1, len({spe}), lambda b: {spe}[a].tick <= {spe}[b].tick))"
    sp = "result[k].star_power_data"
    sp_facts = f"forall(0, {n}, lambda k: {per_event('result', 'k', True, ('~none',))})"
    Lemma("C05-star-power-membership", vars, light + struct("each-event", "phrases-before-cursor-ended") + [ordered], [
        ("carries-data-only-if-some-phrase-covers", f"forall(0, {n}, lambda k: implies({sp} is not None, 0 <= g_c[k] and g_c[k] < len({spe}) and {covers('g_c[k]', 'k')}))"),
        ("carries-data-if-some-phrase-covers", f"forall(0, {n}, lambda k: forall(0, len({spe}), lambda j: implies({covers('j', 'k')}, {sp} is not None)))"),
        ("index-is-first-covering-phrase", f"forall(0, {n}, lambda k: implies({sp} is not None, 0 <= {sp}.star_power_event_index and {sp}.star_power_event_index < len({spe}) "
                                           f"and {covers(sp + '.star_power_event_index', 'k')} and forall(0, {sp}.star_power_event_index, lambda j: not {covers('j', 'k')})))"),
    ], ["C05"], uses=uses2, note="L5: needs the phrases ordered by start tick (the property's quantifier); the cursor is invisible")
