def units_for(prop, reg, tier):
    from . import core, tempo, notes, sections, locality      # noqa: F401  (registration)
    tempo.register(reg)
    notes.register(reg)
    sections.register(reg)
    locality.register(reg)
    return [("lemmas.core:run_lemma", n) for n, l in core.LEMMAS.items() if prop in l.props]
