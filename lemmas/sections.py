"""Relations between parses (C06, C13) as lemmas over the proved postcondition of Chart.from_file.

The postcondition (contracts/c_file.py: units [sections], [required-sections], [routing]) describes
the chart as a function of the SET of (header, body) pairs of the file and of the selection.  The
statements of C06/C13 that compare two parses are consequences of that shape; they are proved here
by SMT from the contract clause texts themselves (renamed for two runs A and B), never from the code.

Two files are related by an embedding sigma of A's sections into B's sections that keeps headers and
body contents.  Hypothesis named 'congruence': the result function of a section parser depends on
the CONTENT of the lines it is given, not on where in the file they sit (python value semantics of
lists; that the parsers read nothing else is the frame obligation of C17).  It is an assumption of
these lemmas and is listed as such."""
from __future__ import annotations

import re

from pyvc.values import INT, BOOL, STR, SeqS, OptS, TupS
from .core import Lemma

_done = []
NAMES = ["g_lines", "g_k", "g_start", "g_tag", "g_has", "g_pi", "g_pd", "result"]


def ren(text, X, also=()):
    for n in list(NAMES) + list(also):
        text = re.sub(rf"\b{n}\b", n + X, text)
    return text


def register(reg):
    if _done:
        return
    _done.append(1)
    S = reg.S
    F = "chartparse.chart:Chart.from_file"
    c_sec, c_req, c_rt = reg.by_name(F + "[sections]"), reg.by_name(F + "[required-sections]"), reg.by_name(F + "[routing]")
    WT = OptS(SeqS(TupS([S["Instrument"], S["Difficulty"]])))
    wf = [t for n, t in c_rt.requires if n in ("sections-tile-the-file", "section-frame", "tags-distinct", "section-starts-increase", "pairs-of-sections")]
    assert len(wf) == 5, [n for n, _ in c_rt.requires]
    post_sec = [t for _, t in c_sec.ensures]
    post_rt = [t for _, t in c_rt.ensures]
    # a parse that returned: the three required sections are there (contrapositive of the must-raise clauses)
    returned = [f"not ({m})" for m in c_req.must_raise]

    def run_vars(X, sel="want_tracks"):
        return {f"g_lines{X}": SeqS(STR), f"g_k{X}": INT, f"g_start{X}": SeqS(INT), f"g_tag{X}": SeqS(STR), f"g_has{X}": SeqS(BOOL),
                f"g_pi{X}": SeqS(S["Instrument"]), f"g_pd{X}": SeqS(S["Difficulty"]), f"result{X}": S["Chart"]}

    def run_facts(X, posts, also=()):
        return [ren(t, X, also) for t in wf + returned + posts]

    M, SY, GE = "chartparse.metadata:Metadata.from_chart_lines", "chartparse.sync:SyncTrack.from_chart_lines", "chartparse.globalevents:GlobalEventsTrack.from_chart_lines"
    IT = "chartparse.instrument:InstrumentTrack.from_chart_lines[safety]"
    bodyA = lambda j: f"slice(g_linesA, g_startA[{j}] + 2, g_startA[{j} + 1] - 1)"
    bodyB = lambda j: f"slice(g_linesB, g_startB[{j}] + 2, g_startB[{j} + 1] - 1)"
    lenA = lambda j: f"((g_startA[{j} + 1] - 1) - (g_startA[{j}] + 2))"
    lenB = lambda j: f"((g_startB[{j} + 1] - 1) - (g_startB[{j}] + 2))"
    # BODYEQ(j): body j of A and body sigma[j] of B have the same length and the same lines
    # (({lenA} == {lenB}) and forall i: g_linesA[g_startA[j] + 2 + i] == g_linesB[g_startB[sigma[j]] + 2 + i]).
    # The proofs never unfold it: it is the antecedent of the congruence hypothesis and a conjunct of the embedding.
    same_body = lambda j: f"opaque('BODYEQ', {j}, sigma[{j}])"
    # body contents must agree only where the statement says they matter: the three required
    # sections and the SELECTED track sections.  Unrecognised sections and track sections that are
    # not selected may have arbitrary, different (even invalid) bodies in the two files.
    matters = ("(g_tagA[j] == 'Song' or g_tagA[j] == 'SyncTrack' or g_tagA[j] == 'Events' or "
               "(g_hasA[j] and (want_tracks is None or (g_piA[j], g_pdA[j]) in want_tracks)))")
    embedding = [
        "len(sigma) == g_kA",
        f"forall(0, g_kA, lambda j: 0 <= sigma[j] and sigma[j] < g_kB and g_tagB[sigma[j]] == g_tagA[j] and implies({matters}, {same_body('j')}))",
    ]
    # every section of B that is not the image of a section of A is unrecognised (neither required nor a track header)
    rest_unknown = ["forall(0, g_kB, lambda b: exists(0, g_kA, lambda j: sigma[j] == b) or "
                    "(not g_hasB[b] and g_tagB[b] != 'Song' and g_tagB[b] != 'SyncTrack' and g_tagB[b] != 'Events'))"]
    beA, beB = "resultA.sync_track.bpm_events", "resultB.sync_track.bpm_events"
    congruence = [
        f"forall(0, g_kA, lambda j: implies({same_body('j')}, same(fn_result('{M}', {bodyA('j')}), fn_result('{M}', {bodyB('sigma[j]')}))))",
        f"forall(0, g_kA, lambda j: implies({same_body('j')} and resultA.metadata.resolution == resultB.metadata.resolution, "
        f"same(fn_result('{SY}', resultA.metadata.resolution, {bodyA('j')}), fn_result('{SY}', resultB.metadata.resolution, {bodyB('sigma[j]')}))))",
        f"forall(0, g_kA, lambda j: implies({same_body('j')} and same({beA}, {beB}), "
        f"same(fn_result('{GE}', {bodyA('j')}, {beA}), fn_result('{GE}', {bodyB('sigma[j]')}, {beB}))))",
    ]
    congruence_tracks = [
        f"forall(0, g_kA, lambda j: implies({same_body('j')} and same({beA}, {beB}) and g_hasA[j], "
        f"same(fn_result('{IT}', g_piA[j], g_pdA[j], {bodyA('j')}, {beA}), fn_result('{IT}', g_piA[j], g_pdA[j], {bodyB('sigma[j]')}, {beB}))))",
    ]
    vars2 = dict(run_vars("A"), **run_vars("B"), want_tracks=WT, sigma=SeqS(INT))
    CONG = ["congruence (lemmas/sections.py): the result function of a section parser depends on the content of the lines it is given, not on their position in the file "
            "(value semantics of lists; that the parsers read nothing but their arguments is C17's frame obligation)"]
    uses = [F + "[sections]/post/*", F + "[routing]/post/*", F + "[required-sections]/must-raise/*",
            "chartparse.chart:Chart._partition_lines_by_data_section/post/* (through from_file)"]
    note = ("B contains A's sections (same headers) in ANY order, plus any number of unrecognised sections with arbitrary bodies; body contents agree for the "
            "three required sections and the selected track sections only.  Hence: independent of section order (sigma a permutation), of unrecognised "
            "sections, and of the content of any section that is not selected (C13 non-interference).  Assumes 'congruence' (module docstring).")
    Lemma("file-independent-of-order-and-unknown-sections/required", vars2,
          [ren(t, "A") for t in returned + post_sec] + [ren(t, "B") for t in post_sec] + embedding + congruence, [
              ("metadata-equal", "same(resultA.metadata, resultB.metadata)"),
              ("sync-track-equal", "same(resultA.sync_track, resultB.sync_track)"),
              ("global-events-equal", "same(resultA.global_events_track, resultB.global_events_track)"),
          ], ["C06"], uses=uses, module="chartparse.chart", note=note, shift=False, assumptions=CONG)
    tracksA, tracksB = "resultA.instrument_tracks", "resultB.instrument_tracks"
    pairs_def = [t for n, t in c_rt.requires if n == "pairs-of-sections"]
    tags_distinct = [t for n, t in c_rt.requires if n == "tags-distinct"]
    carry = ("forall(0, g_kA, lambda j: g_hasB[sigma[j]] == g_hasA[j] and implies(g_hasA[j], g_piB[sigma[j]] == g_piA[j] and g_pdB[sigma[j]] == g_pdA[j]))")
    Lemma("file-independent-of-order-and-unknown-sections/pairs-carry-over", vars2,
          [ren(t, "A") for t in pairs_def] + [ren(t, "B") for t in pairs_def] + embedding, [
              ("a-section-and-its-image-name-the-same-pair", carry),
          ], ["C06", "C13"], uses=[F + "[routing]/pre/pairs-of-sections (definition of the ghost pair table: a function of the header)"], module="chartparse.chart",
          note="has/pi/pd are defined from the header alone, and a section and its image have the same header", shift=False)
    rt = dict(c_rt.ensures)
    core_posts = [rt["selected-sections-parsed-into-their-track"], rt["no-other-track"]]
    Lemma("file-independent-of-order-and-unknown-sections/tracks", vars2,
          [ren(t, "A") for t in core_posts] + [ren(t, "B") for t in core_posts] + embedding + [carry] + rest_unknown + congruence_tracks + [f"same({beA}, {beB})"], [
              ("every-track-of-A-is-in-B-and-equal",
               f"forall_keys({tracksA}, lambda i: forall_keys({tracksA}[i], lambda d: i in {tracksB} and d in {tracksB}[i] and same({tracksA}[i][d], {tracksB}[i][d])))"),
              ("every-track-of-B-is-in-A",
               f"forall_keys({tracksB}, lambda i: forall_keys({tracksB}[i], lambda d: i in {tracksA} and d in {tracksA}[i]))"),
          ], ["C06", "C13"], uses=uses + ["lemma:file-independent-of-order-and-unknown-sections/required (sync-track-equal)",
                                          "lemma:file-independent-of-order-and-unknown-sections/pairs-carry-over"], module="chartparse.chart", note=note, shift=False, assumptions=CONG)

    # ---- C13: selection and non-interference, two parses of ONE file with selections wA, wB
    one = {"g_lines": SeqS(STR), "g_k": INT, "g_start": SeqS(INT), "g_tag": SeqS(STR), "g_has": SeqS(BOOL),
           "g_pi": SeqS(S["Instrument"]), "g_pd": SeqS(S["Difficulty"]), "resultA": S["Chart"], "resultB": S["Chart"], "want_tracks": WT}
    selA = [re.sub(r"\bresult\b", "resultA", t) for t in post_rt]                                   # parse A: selection want_tracks
    allB = [re.sub(r"\bwant_tracks\b", "None", re.sub(r"\bresult\b", "resultB", t)) for t in post_rt]   # parse B: no selection
    Lemma("selection-restricts-the-unrestricted-parse", one,
          wf + returned + selA + allB + ["same(resultA.sync_track.bpm_events, resultB.sync_track.bpm_events)"], [
              ("selected-tracks-are-the-unrestricted-ones",
               "forall_keys(resultA.instrument_tracks, lambda i: forall_keys(resultA.instrument_tracks[i], lambda d: "
               "(want_tracks is None or (i, d) in want_tracks) and i in resultB.instrument_tracks and d in resultB.instrument_tracks[i] "
               "and same(resultA.instrument_tracks[i][d], resultB.instrument_tracks[i][d])))"),
              ("every-selected-unrestricted-track-is-returned",
               "forall_keys(resultB.instrument_tracks, lambda i: forall_keys(resultB.instrument_tracks[i], lambda d: "
               "implies(want_tracks is None or (i, d) in want_tracks, i in resultA.instrument_tracks and d in resultA.instrument_tracks[i])))"),
              ("empty-selection-yields-no-track",
               "implies(want_tracks is not None and len(want_tracks) == 0, forall_keys(resultA.instrument_tracks, lambda i: forall_keys(resultA.instrument_tracks[i], lambda d: False)))"),
          ], ["C13"], uses=[F + "[routing]/post/*", F + "[sections]/post/* (metadata, sync track and global events do not mention the selection)"],
          module="chartparse.chart",
          note="the tempo map of both parses is the same value because [sections]/post defines it without mentioning want_tracks (hypothesis same(bpm_events)).", shift=False)
