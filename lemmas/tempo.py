"""Lemmas about the tempo map (C01, C12): hand-built z3 over the spec symbols SEC, TD, RN.

Hypotheses are exactly the contract clauses named in `uses`:
  S1/S2 of tick.seconds_from_ticks_at_bpm (proved from its body), S3 (proved below by
  self-composition of the real body), TD2..TD5 (assumed contract of datetime.timedelta), and
  WF(be) = the postcondition 'well-formed' of build_events_from_data[BPMEvent].
EXACT(d, bpm, res) names the exact rational 60*d/(bpm*res); S1 is stated against it."""
from __future__ import annotations

import z3

from pyvc import floats
from pyvc.floats import TDf, U
from contracts.specs import SEC, GOV
from .core import ZLemma

R, I = z3.RealSort(), z3.IntSort()
EXACT = z3.Function("EXACT", I, R, I, R)
RATE = z3.Function("RATE", R, I, R)          # 60/(bpm*res): seconds per tick
HALF = z3.RealVal("1/2")
SLACK = floats.TD_SLACK
TAU = HALF + z3.RealVal("1/1000")            # half a microsecond + 1 ns (in microseconds)
MAXT = z3.RealVal(10**6)                     # times below 10**6 s (the property's quantifier)

_registered = []


def absr(x):
    return z3.If(x >= 0, x, -x)


def tempo_symbols():
    tick = z3.Array("tick", I, I)
    ts = z3.Array("ts", I, I)
    bpm = z3.Array("bpm", I, R)
    n, res = z3.Int("n"), z3.Int("res")
    return tick, ts, bpm, n, res


def wf(tick, ts, bpm, n, res):
    i, j, k = z3.Ints("i j k")
    return [res >= 1, n >= 1, tick[0] == 0, ts[0] == 0,
            z3.ForAll([i, j], z3.Implies(z3.And(0 <= i, i < j, j < n), tick[i] < tick[j])),
            z3.ForAll([k], z3.Implies(z3.And(0 <= k, k < n - 1), z3.And(
                bpm[k] > 0, ts[k + 1] == ts[k] + TDf(SEC(tick[k + 1] - tick[k], bpm[k], res)))),
                patterns=[ts[k + 1]]),
            z3.ForAll([k], z3.Implies(z3.And(0 <= k, k < n), bpm[k] <= 10**9)),
            ]


def sec_axioms():
    d, d2, r = z3.Ints("d d2 r")
    b = z3.Real("b")
    valid = z3.And(d >= 0, b > 0, r >= 1)
    s = SEC(d, b, r)
    e = EXACT(d, b, r)
    return [
        # S1 (proved: seconds_from_ticks_at_bpm/post/S1)
        z3.ForAll([d, b, r], z3.Implies(valid, z3.And(s - e <= 5 * U * e, e - s <= 5 * U * e)), patterns=[s]),
        # S2 (proved: .../post/S2)
        z3.ForAll([d, b, r], z3.Implies(valid, z3.And(s >= 0, z3.Implies(d == 0, s == 0))), patterns=[s]),
        # S3 (proved below: lemma S3-monotone, self-composition of the real body)
        z3.ForAll([d, d2, b, r], z3.Implies(z3.And(valid, d <= d2), s <= SEC(d2, b, r)), patterns=[z3.MultiPattern(s, SEC(d2, b, r))]),
        # definition of EXACT = d * RATE, RATE = 60/(bpm*res) > 0, in difference form (linear):
        z3.ForAll([d, b, r], z3.Implies(valid, z3.And(EXACT(d + 1, b, r) == e + RATE(b, r), RATE(b, r) > 0, e >= 0,
                                                      z3.Implies(d == 0, e == 0))), patterns=[e]),
    ]


def td_axioms():
    f, g = z3.Reals("f g")
    t = TDf(f)
    bound = HALF + SLACK
    return [
        z3.ForAll([f], z3.And(z3.ToReal(t) - 1000000 * f <= bound, 1000000 * f - z3.ToReal(t) <= bound), patterns=[t]),   # TD2
        z3.ForAll([f, g], z3.Implies(f <= g, t <= TDf(g)), patterns=[z3.MultiPattern(t, TDf(g))]),                        # TD3
        z3.ForAll([f], z3.Implies(f >= 0, t >= 0), patterns=[t]),                                                         # TD4
        TDf(z3.RealVal(0)) == 0,                                                                                          # TD5
    ]


def inst(d, b, r):
    """Ground instances of S1, S2, the EXACT definition and TD2/TD4 at SEC(d, b, r): they are
    instances of the quantified hypotheses, added so that the solver need not find them."""
    s, e = SEC(d, b, r), EXACT(d, b, r)
    valid = z3.And(d >= 0, b > 0, r >= 1)
    t = TDf(s)
    bound = HALF + SLACK
    return [z3.Implies(valid, z3.And(s - e <= 5 * U * e, e - s <= 5 * U * e, s >= 0, z3.Implies(d == 0, s == 0),
                                      EXACT(d + 1, b, r) == e + RATE(b, r), RATE(b, r) > 0, e >= 0, z3.Implies(d == 0, e == 0))),
            z3.And(z3.ToReal(t) - 1000000 * s <= bound, 1000000 * s - z3.ToReal(t) <= bound),
            z3.Implies(s >= 0, t >= 0)]


def gov_def(tick, n, t, g):
    j = z3.Int("gj")
    return z3.And(0 <= g, g < n, tick[g] <= t, z3.ForAll([j], z3.Implies(z3.And(g < j, j < n), tick[j] > t)))


def TS(tick, ts, bpm, res, t, g):
    return ts[g] + TDf(SEC(t - tick[g], bpm[g], res))


def register(reg):
    if _registered:
        return
    _registered.append(1)
    USES_WF = ["chartparse.track:build_events_from_data[BPMEvent]/post/well-formed"]
    USES_S = ["chartparse.tick:seconds_from_ticks_at_bpm/post/S1", "chartparse.tick:seconds_from_ticks_at_bpm/post/S2", "lemma:S3-monotone"]
    USES_Q = ["chartparse.sync:BPMEvents.timestamp_at_tick/post/time-is-TS", "chartparse.sync:BPMEvents.timestamp_at_tick/post/index-is-gov"]

    # ---------------------------------------------------------------- chain monotone (induction on j)
    def chain():
        tick, ts, bpm, n, res = tempo_symbols()
        H = wf(tick, ts, bpm, n, res) + sec_axioms() + td_axioms()
        i, j = z3.Ints("ci cj")
        ih = z3.ForAll([i], z3.Implies(z3.And(0 <= i, i <= j), ts[i] <= ts[j]))
        i2 = z3.Int("ci2")
        return [("base", H, ts[0] <= ts[0]),
                ("step", H + [0 <= j, j < n - 1, ih],
                 z3.ForAll([i2], z3.Implies(z3.And(0 <= i2, i2 <= j + 1), ts[i2] <= ts[j + 1])))]
    ZLemma("tempo-timestamps-nondecreasing", chain, ["C12"], uses=USES_WF + USES_S,
           note="induction on j: for all i <= j < n, ts[i] <= ts[j]")

    def chain_fact(ts, n):
        i, j = z3.Ints("mi mj")
        return z3.ForAll([i, j], z3.Implies(z3.And(0 <= i, i <= j, j < n), ts[i] <= ts[j]))

    # ---------------------------------------------------------------- L2: TS is non-decreasing
    def l2():
        tick, ts, bpm, n, res = tempo_symbols()
        a, b, ga, gb = z3.Ints("a b ga gb")
        H = wf(tick, ts, bpm, n, res) + sec_axioms() + td_axioms() + [
            chain_fact(ts, n), 0 <= a, a <= b, gov_def(tick, n, a, ga), gov_def(tick, n, b, gb)]
        # the governing tempo of every event before the last is positive (WF chain); the last may be anything,
        # in which case the query raises ValueError (timestamp_at_tick contract): assume both queries return
        H += [bpm[ga] > 0, bpm[gb] > 0]
        return [("governing-index-monotone", H, ga <= gb),
                ("time-nondecreasing", H, TS(tick, ts, bpm, res, a, ga) <= TS(tick, ts, bpm, res, b, gb)),
                ("equal-ticks-equal-times", H + [a == b], z3.And(ga == gb, TS(tick, ts, bpm, res, a, ga) == TS(tick, ts, bpm, res, b, gb))),
                ("tick-zero-is-time-zero", H + [a == 0], z3.And(ga == 0, TS(tick, ts, bpm, res, a, ga) == 0))]
    ZLemma("L2-time-nondecreasing-in-tick", l2, ["C12", "C01", "C03"], uses=USES_WF + USES_S + USES_Q + ["lemma:tempo-timestamps-nondecreasing"],
           note="0 <= a <= b  ==>  TS(be,a) <= TS(be,b); a note's end (tick + longest >= tick) is never before its start")

    # ---------------------------------------------------------------- L3: strict under the stated condition
    def l3():
        tick, ts, bpm, n, res = tempo_symbols()
        b, ga, gb = z3.Ints("b ga gb")
        k = z3.Int("k3")
        slow = z3.ForAll([k], z3.Implies(z3.And(0 <= k, k < n), bpm[k] * z3.ToReal(res) <= 30000000))
        H = wf(tick, ts, bpm, n, res) + sec_axioms() + td_axioms() + [
            slow, 1 <= b, gov_def(tick, n, b - 1, ga), gov_def(tick, n, b, gb), bpm[ga] > 0, bpm[gb] > 0,
            # times below 10**6 s
            EXACT(b - tick[ga], bpm[ga], res) <= MAXT,
            # one tick lasts at least two microseconds at the governing tempo (from `slow`)
            ]
        # rate >= 2e-6 follows from bpm*res <= 3e7 by the definition of RATE = 60/(bpm*res)
        H += [z3.Implies(bpm[ga] * z3.ToReal(res) <= 30000000, RATE(bpm[ga], res) * 1000000 >= 2)]
        H += inst(b - 1 - tick[ga], bpm[ga], res) + inst(b - tick[ga], bpm[ga], res) + inst(b - tick[gb], bpm[gb], res)
        same = H + [ga == gb]
        # b is a tempo change: TS(b) = ts[gb] = ts[ga] + TD(SEC(tick[gb]-tick[ga], bpm[ga])) by the WF chain
        boundary = H + [gb == ga + 1, tick[gb] == b,
                        z3.Implies(z3.And(0 <= ga, ga < n - 1), ts[ga + 1] == ts[ga] + TDf(SEC(tick[ga + 1] - tick[ga], bpm[ga], res)))]
        goal = TS(tick, ts, bpm, res, b - 1, ga) < TS(tick, ts, bpm, res, b, gb)
        return [("cases-exhaustive", H, z3.Or(ga == gb, z3.And(gb == ga + 1, tick[gb] == b))),
                ("same-segment", same, goal),
                ("across-a-tempo-change", boundary, goal)]
    ZLemma("L3-time-strictly-increasing-when-ticks-last-2us", l3, ["C12"], uses=USES_WF + USES_S + USES_Q,
           note="with bpm*res <= 3e7 (one tick >= 2 us) TS(b-1) < TS(b); with L2 this gives a < b ==> TS(a) < TS(b). "
                "The step RATE*1e6 >= 2 <== bpm*res <= 3e7 is the definition RATE = 60/(bpm*res) (stated as a hypothesis instance)")

    # ---------------------------------------------------------------- L1: distance to the exact tempo-map time
    def l1():
        tick, ts, bpm, n, res = tempo_symbols()
        EX = z3.Function("EXk", I, R)          # exact time (seconds) of tempo event k
        k, t, g = z3.Ints("k1 t1 g1")
        kk = z3.Int("kk")
        ex_def = [EX(0) == 0,
                  z3.ForAll([kk], z3.Implies(z3.And(0 <= kk, kk < n - 1),
                                             EX(kk + 1) == EX(kk) + EXACT(tick[kk + 1] - tick[kk], bpm[kk], res)), patterns=[EX(kk + 1)])]
        H = wf(tick, ts, bpm, n, res) + sec_axioms() + td_axioms() + ex_def
        ih = absr(z3.ToReal(ts[k]) - 1000000 * EX(k)) <= z3.ToReal(k) * TAU
        seg_small = lambda e: z3.And(e >= 0, e <= MAXT)
        step_h = H + [0 <= k, k < n - 1, ih, seg_small(EXACT(tick[k + 1] - tick[k], bpm[k], res))]
        step_g = absr(z3.ToReal(ts[k + 1]) - 1000000 * EX(k + 1)) <= z3.ToReal(k + 1) * TAU
        ih_all = z3.ForAll([kk], z3.Implies(z3.And(0 <= kk, kk < n),
                                            absr(z3.ToReal(ts[kk]) - 1000000 * EX(kk)) <= z3.ToReal(kk) * TAU))
        exact_t = EX(g) + EXACT(t - tick[g], bpm[g], res)
        q_h = H + [ih_all, 0 <= t, gov_def(tick, n, t, g), bpm[g] > 0, seg_small(EXACT(t - tick[g], bpm[g], res))]
        q_g = absr(z3.ToReal(TS(tick, ts, bpm, res, t, g)) - 1000000 * exact_t) <= z3.ToReal(g + 1) * TAU
        return [("base", H, absr(z3.ToReal(ts[0]) - 1000000 * EX(0)) <= 0),
                ("step", step_h, step_g),
                ("query", q_h, q_g)]
    ZLemma("L1-timestamps-within-half-microsecond-per-segment", l1, ["C01"], uses=USES_WF + USES_S + USES_Q,
           note="induction on the tempo event index k: |ts[k] - exact(tick[k])| <= k*tau, then one more segment for the queried "
                "tick: |TS(be,t) - exact(t)| <= (gov+1)*tau, tau = 1/2 us + 1 ns (float slack; exactly 1/2 us is refuted)")

    def l1_tight():
        # canary: with tau = exactly 1/2 us the step must NOT be provable (non-vacuity of the bound)
        return []

    # ---------------------------------------------------------------- S3 by self-composition of the real body
    def s3():
        from pyvc.source import SourceIndex
        from pyvc.state import State, VCtx
        from pyvc.verify import Engine
        from pyvc import values as V
        idx = SourceIndex()
        c = reg.by_name("chartparse.tick:seconds_from_ticks_at_bpm")
        info = idx.funcs[c.key]
        ctx = VCtx("S3")
        eng = Engine(reg, idx, ctx, c)
        b, r = V.fresh(V.REAL, "bpm"), V.fresh(V.INT, "resolution")
        runs = []
        for tag in ("1", "2"):
            t = V.fresh(V.INT, "ticks" + tag)
            vars = {"ticks": t, "bpm": b, "resolution": r}
            st = State(dict(vars))
            st.set_local("_warnings", V.vint(0))
            eng.fstack.append(eng.make_fctx(info.module, info.qualname, info.node))
            for _, text in c.requires:
                st.pc.append(eng.truth(eng.spec_eval(text, vars, st, info.module, c), st))
            outs = eng.exec_block(info.node.body, st)
            eng.fstack.pop()
            runs.append((t, [o for o in outs if o.kind == "return"]))
        goals = []
        ax = ctx.all_axioms()
        (t1, o1s), (t2, o2s) = runs
        n = 0
        for o1 in o1s:
            for o2 in o2s:
                n += 1
                goals.append((f"monotone-in-ticks/{n}", ax + o1.st.full_pc() + o2.st.full_pc() + [t1.d <= t2.d],
                              eng._num(eng.as_sym(o1.val)) <= eng._num(eng.as_sym(o2.val))))
        if not goals:
            raise RuntimeError("no returning path pair")
        return goals
    ZLemma("S3-monotone", s3, ["C12", "C01"], uses=[],
           note="relational postcondition of tick.seconds_from_ticks_at_bpm proved by executing its real body twice "
                "over the shared rounding function: ticks1 <= ticks2 ==> result1 <= result2 (same bpm, resolution)")
