"""L4 (C14, second sentence): inserting an unparsable line anywhere in a section changes no datum of
any kind and adds exactly one warning - mechanised over the dispatcher's proved postcondition.

Two runs of `parse_data_from_chart_lines` (one kind tuple): A on `linesA`, B on `linesB`, where
linesB is linesA with one line claimed by no kind inserted at position p.  Hypotheses are the
dispatcher's postcondition clause TEXTS (contracts/c_track.dispatcher_clauses), instantiated for
A and for B - so the lemma follows the contract, never the code.  With
shift(i) = i if i < p else i + 1 the goals are, per kind j:

  step      (induction on K, strong form)  (forall k < K: srcB_j[k] == shift(srcA_j[k]))  and  K < len(srcA_j), K < len(srcB_j)
            ==>  srcB_j[K] == shift(srcA_j[K])
  length    (forall k < min(len): srcB_j[k] == shift(srcA_j[k]))  ==>  len(srcA_j) == len(srcB_j)
  data      ... ==>  forall k: dataB_j[k] == dataA_j[k]   (field by field: the decoded fields are functions of the source line)
and   warnings  (the three lengths equal)  ==>  warningsB == warningsA + 1.

The induction principle itself (from `step` for every K to the universally quantified statement
used by `length` and `data`) is the one step that is not an SMT obligation; it is ordinary
mathematical induction on K and is named in the evidence.  Deleting a line is the same relation read
from B to A; moving a line is a deletion followed by an insertion; any finite edit script of
unparsable lines is an iteration.  That the EVENTS are then unchanged is because every builder is
applied to these data lists and the tempo map only (the section parsers' postconditions:
`<field>/each-event`, `notes/*`), plus the frame obligations (no other channel)."""
from __future__ import annotations

import re

from pyvc.values import INT, STR, SeqS
from .core import Lemma

_done = []


def register(reg):
    if _done:
        return
    _done.append(1)
    from contracts.c_track import SECTIONS, dispatcher_clauses
    S = reg.S
    for label, (paths, shapes) in SECTIONS.items():
        def clauses(X):
            cl = dispatcher_clauses(reg, paths, [f"d{X}{j}" for j in range(3)], f"len(lines{X})", src=lambda j: f"s{X}{j}")
            out = []
            for n, t in cl:
                t = re.sub(r"\blines\b", f"lines{X}", t)
                t = re.sub(r"\bg_at\b", f"at{X}", t)
                t = re.sub(r"\b_warnings\b", f"w{X}", t)
                out.append((n, t))
            return out
        A, B = clauses("A"), clauses("B")
        vars = {"linesA": SeqS(STR), "linesB": SeqS(STR), "p": INT, "K": INT, "wA": INT, "wB": INT, "atA": SeqS(INT), "atB": SeqS(INT)}
        for X in "AB":
            for j in range(3):
                vars[f"s{X}{j}"] = SeqS(INT)
                vars[f"d{X}{j}"] = SeqS(S[shapes[j]])
        related = [
            "0 <= p and p <= len(linesA) and len(linesB) == len(linesA) + 1",
            "forall(0, p, lambda i: linesB[i] == linesA[i])",
            "forall(p, len(linesA), lambda i: linesB[i + 1] == linesA[i])",
            " and ".join(f"not rxm('{q}', linesB[p])" for q in paths),
        ]
        base = [t for _, t in A] + [t for _, t in B] + related
        shift = lambda e: f"({e} if {e} < p else {e} + 1)"
        uses = [f"chartparse.track:parse_data_from_chart_lines[{label}]/post/*"]
        goals_step, goals_rest = [], []
        for j in range(3):
            sa, sb = f"sA{j}", f"sB{j}"
            goals_step.append((f"kind{j}/step", j))
        for j in range(3):
            sa, sb, da, db = f"sA{j}", f"sB{j}", f"dA{j}", f"dB{j}"
            unshift = lambda e: f"({e} if {e} < p else {e} - 1)"
            # witness terms (each a variable DEFINED by an equation, so no generality is lost): they put the
            # index terms the proof instantiates the quantified clauses with into the solver's term bank
            wit = dict(iA=INT, iB=INT, k2=INT, k3=INT)
            # only kind j's clauses of the two postconditions are needed (fewer hypotheses: sound)
            base = [t for n, t in A + B if n.startswith(f"kind{j}-") or n == "positions-length"] + related
            ih = f"forall(0, K, lambda k: implies(k < len({sa}) and k < len({sb}), {sb}[k] == {shift(sa + '[k]')}))"
            Lemma(f"L4-unparsable-line-insertion-changes-no-datum[{label}]/kind{j}-sources-correspond", dict(vars, **wit),
                  base + [ih, f"0 <= K and K < len({sa}) and K < len({sb})",
                          f"iA == {unshift(sb + '[K]')} and k2 == atA[iA] and linesA[iA] == linesA[iA]",
                          f"iB == {shift(sa + '[K]')} and k3 == atB[iB] and linesB[iB] == linesB[iB]"],
                  [("source-in-B-is-not-the-inserted-line", f"{sb}[K] != p and 0 <= iA and iA < len(linesA) and linesA[iA] == linesB[{sb}[K]]"),
                   ("preimage-is-a-source-in-A-not-before-K", f"0 <= k2 and k2 < len({sa}) and {sa}[k2] == iA and k2 >= K"),
                   ("image-is-a-source-in-B-not-before-K", f"0 <= k3 and k3 < len({sb}) and {sb}[k3] == iB and k3 >= K"),
                   ("induction-step", f"{sb}[K] == {shift(sa + '[K]')}")],
                  ["C14"], uses=uses, module="chartparse.track", shift=False, chain=True,
                  note="strong induction on K: the K-th source of kind j in B is the shifted K-th source in A; the base case is K = 0 (empty hypothesis)",
                  assumptions=["mathematical induction on K from lemma L4 .../induction-step to the quantified correspondence used by .../same-data (the only step of L4 that is not an SMT obligation)"])
            full = f"forall(0, len({sa}), lambda k: implies(k < len({sb}), {sb}[k] == {shift(sa + '[k]')}))"
            dec = [n for n, _ in A if n == f"kind{j}-data-decoded-from-source-line"]
            assert dec
            wit2 = dict(iA=INT, iB=INT, k2=INT, k3=INT)
            Lemma(f"L4-unparsable-line-insertion-changes-no-datum[{label}]/kind{j}-same-data", dict(vars, **wit2),
                  base + [full,
                          f"implies(len({sa}) < len({sb}), iA == {unshift(sb + '[len(' + sa + ')]')} and k2 == atA[iA] and linesA[iA] == linesA[iA])",
                          f"implies(len({sb}) < len({sa}), iB == {shift(sa + '[len(' + sb + ')]')} and k3 == atB[iB] and linesB[iB] == linesB[iB])"],
                  [("an-extra-source-in-B-is-not-the-inserted-line",
                    f"implies(len({sa}) < len({sb}), {sb}[len({sa})] != p and 0 <= iA and iA < len(linesA) and linesA[iA] == linesB[{sb}[len({sa})]])"),
                   ("its-preimage-is-a-source-in-A", f"implies(len({sa}) < len({sb}), 0 <= k2 and k2 < len({sa}) and {sa}[k2] == iA)"),
                   ("B-has-no-extra-source", f"not (len({sa}) < len({sb}))"),
                   ("an-extra-source-in-A-has-its-image-line-in-B",
                    f"implies(len({sb}) < len({sa}), 0 <= iB and iB < len(linesB) and linesB[iB] == linesA[{sa}[len({sb})]])"),
                   ("its-image-is-a-source-in-B", f"implies(len({sb}) < len({sa}), 0 <= k3 and k3 < len({sb}) and {sb}[k3] == iB)"),
                   ("A-has-no-extra-source", f"not (len({sb}) < len({sa}))"),
                   ("same-length", f"len({sa}) == len({sb}) and len({da}) == len({db})"),
                   ("same-data", f"forall(0, len({da}), lambda k: implies(k < len({db}), {da}[k] == {db}[k]))")],
                  ["C14"], uses=uses + [f"lemma:L4-...[{label}]/kind{j}-sources-correspond (by induction)"], module="chartparse.track", shift=False, chain=True,
                  note="the data lists of A and B are equal element by element: each datum is decoded from its source line, and the source lines are the same strings")
        base = [t for n, t in A + B if n in ("conservation",) or n.endswith("-length")] + related
        Lemma(f"L4-unparsable-line-insertion-changes-no-datum[{label}]/one-more-warning", vars,
              base + [f"len(dA{j}) == len(dB{j})" for j in range(3)],
              [("exactly-one-more-warning", "wB == wA + 1")],
              ["C14"], uses=uses, module="chartparse.track", shift=False,
              note="conservation: every line is a datum of exactly one kind or one warning")
