"""Lemmas over the contracts: property-level statements derived from the functions' (proved)
postconditions.  A lemma assumes named contract clauses and proves goals; all by SMT.

Two flavours:
  * spec lemmas: assumptions/goals are contract-language texts evaluated by the pyvc spec
    evaluator over fresh symbolic values (Lemma);
  * z3 lemmas: hand-built z3 formulas for the arithmetic of the tempo map (ZLemma).
Every lemma lists `uses`: the contract clauses it takes as hypotheses, so that the evidence shows
which proved postconditions a property-level statement rests on."""
from __future__ import annotations

import time
import traceback

import z3

from pyvc import values as V
from pyvc.state import State, VCtx, Obligation
from pyvc.solve import discharge
from pyvc.verify import Engine, model_value

LEMMAS = {}


class Lemma:
    def __init__(self, name, vars, assumes, goals, props, uses=(), module="chartparse.instrument", note="", shift=True, assumptions=(), chain=False):
        self.assumptions = list(assumptions)
        # chain: the goals are proved in order and each goal is a hypothesis of the following ones (cut
        # rule; the lemma counts as proved only if every goal is discharged, so this is sound)
        self.chain = chain
        self.shift = shift      # add index-shifted copies of the quantified hypotheses (needed where goals talk about k+1)
        self.name, self.vars, self.assumes, self.goals = name, vars, assumes, goals
        self.props, self.uses, self.module, self.note = props, list(uses), module, note
        LEMMAS[name] = self


class ZLemma:
    """build(ctxobj) -> list of (goal name, hypotheses list, goal)"""

    def __init__(self, name, build, props, uses=(), note=""):
        self.name, self.build, self.props, self.uses, self.note = name, build, props, list(uses), note
        LEMMAS[name] = self


def run_lemma(reg, idx, name, timeout_ms=None, seed=0):
    t0 = time.time()
    lem = LEMMAS[name]
    res = {"name": "lemma:" + name, "engine": "lemma", "status": "ok", "reason": "", "obligations": [], "assumptions": [],
           "callees": list(lem.uses), "notes": [lem.note] if lem.note else [], "seconds": 0.0, "sha": "", "paths": 0}
    try:
        obs = []
        axioms = []
        params = {}
        if isinstance(lem, ZLemma):
            for gname, hyps, goal in lem.build():
                obs.append(Obligation(f"lemma:{name}/{gname}", list(hyps), goal, kind="lemma"))
        else:
            ctx = VCtx("lemma:" + name)
            eng = Engine(reg, idx, ctx, None)
            eng.shift_quantifiers = lem.shift
            env = {}
            st = State({})
            from pyvc.quant import deep_wf
            for v, sh in lem.vars.items():
                env[v] = V.fresh(sh, v)
                st.pc.append(deep_wf(eng, env[v]))
            params = env
            for text in lem.assumes:
                txt = text[1] if isinstance(text, tuple) else text
                st.pc.append(eng.truth(eng.spec_eval(txt, env, st, lem.module), st))
            for gname, text in lem.goals:
                goal = eng.truth(eng.spec_eval(text, env, st, lem.module), st)
                obs.append(Obligation(f"lemma:{name}/{gname}", list(st.pc), goal, kind="lemma"))
                if lem.chain:
                    st.pc.append(goal)
            axioms = ctx.all_axioms()
            res["assumptions"] = sorted(set(ctx.assumptions) | set(lem.assumptions))
        # vacuity guard: the hypotheses must not be refutable (a contradictory assumption would
        # 'prove' every goal).  Unknown is the expected answer for quantified hypotheses.
        if obs and not isinstance(lem, ZLemma):
            sv = z3.Solver()
            sv.set("timeout", 3000)
            for a in axioms:
                sv.add(a)
            for p in obs[0].pc:
                sv.add(p)
            if sv.check() == z3.unsat:
                res["status"] = "error"
                res["reason"] = "vacuous lemma: the assumptions are contradictory"
                res["seconds"] = time.time() - t0
                return res
            res["notes"].append("vacuity guard: the assumptions are not refutable within 3 s")
        for ob in obs:
            discharge(ob, axioms, timeout_ms=timeout_ms, seed=seed)
            d = {"name": ob.name, "kind": ob.kind, "status": ob.status, "backend": ob.backend,
                 "seconds": round(ob.seconds, 4), "reason": ob.reason}
            if ob.status == "refuted" and ob.model is not None and params:
                try:
                    d["model"] = {p: model_value(ob.model, v) for p, v in params.items()}
                except Exception as e:
                    d["model"] = {"error": repr(e)}
            res["obligations"].append(d)
    except Exception as e:
        res["status"] = "error"
        res["reason"] = "".join(traceback.format_exception(e))[-1500:]
    res["seconds"] = time.time() - t0
    return res
