"""rxvc units for the 24 [Song] field recognisers (C10) and the section header (C06)."""
from __future__ import annotations

import dataclasses
import time
import traceback

import z3

from pyvc.source import live_module
from . import rx
from .rx import Pattern, charset, concat, union, ch, MAXC
from .obl import lit, Bs, Ds, Ob, check_recogniser, decide_empty, text_no_linebreak
from .specs import result, uS, uD, NL

# from the statement and the .chart format: field name in the file, kind
FIELDS = {
    "resolution": ("Resolution", "int"), "offset": ("Offset", "int"), "player2": ("Player2", "player2"),
    "difficulty": ("Difficulty", "int"), "preview_start": ("PreviewStart", "int"), "preview_end": ("PreviewEnd", "int"),
    "genre": ("Genre", "str"), "media_type": ("MediaType", "str"), "name": ("Name", "str"), "artist": ("Artist", "str"),
    "charter": ("Charter", "str"), "album": ("Album", "str"), "year": ("Year", "str"),
    "music_stream": ("MusicStream", "str"), "guitar_stream": ("GuitarStream", "str"), "rhythm_stream": ("RhythmStream", "str"),
    "bass_stream": ("BassStream", "str"), "drum_stream": ("DrumStream", "str"), "drum2_stream": ("Drum2Stream", "str"),
    "drum3_stream": ("Drum3Stream", "str"), "drum4_stream": ("Drum4Stream", "str"), "vocal_stream": ("VocalStream", "str"),
    "keys_stream": ("KeysStream", "str"), "crowd_stream": ("CrowdStream", "str"),
}
DEFAULTS = {"offset": 0, "player2": "Player2Instrument.BASS", "difficulty": 0, "preview_start": 0, "preview_end": 0,
            "genre": "rock", "media_type": "cd"}


def specs_live():
    return live_module("chartparse.metadata")._field_parsing_specs


def units_for(prop):
    u = []
    if prop == "C10":
        u += [("rxvc.metadata:run", f"rx-field:{f}") for f in FIELDS]
        u += [("rxvc.metadata:run", "rx-fields:disjoint"), ("rxvc.metadata:run", "rx-fields:ground")]
    if prop == "C06":
        u += [("rxvc.metadata:run", "rx-header:tag")]
    return u


def run(reg, idx, name, timeout_ms=None, seed=0):
    t0 = time.time()
    timeout_ms = timeout_ms or 20000
    try:
        kind, _, arg = name.partition(":")
        if kind == "rx-field":
            return result(name, field(arg, timeout_ms), t0)
        if name == "rx-fields:disjoint":
            return result(name, disjoint(timeout_ms), t0)
        if name == "rx-fields:ground":
            return result(name, ground(), t0)
        if name == "rx-header:tag":
            return result(name, header(timeout_ms), t0)
        raise KeyError(name)
    except rx.Unsupported as e:
        return result(name, [], t0, status="undecided", reason=f"Unsupported: {e}")
    except Exception as e:
        return result(name, [], t0, status="error", reason="".join(traceback.format_exception(e))[-1500:])


def field(f, timeout_ms):
    fname, kind = FIELDS[f]
    live = specs_live()
    if f not in live:
        o = Ob(f"rx/field/{f}/present", "ground")
        o.status, o.backend, o.reason, o.model = "refuted", "ground", "no recogniser for this field", {"field": f}
        return [o]
    pattern = live[f].regex
    sp = z3.Star(uS())
    E = z3.Re(z3.StringVal(""))
    q = lit('"')
    if kind == "str":
        V = z3.Plus(text_no_linebreak())
        variants = [("quoted", True, [(Bs(), None), (lit(fname + " = "), None), (q, None), (V, 1), (q, None), (Bs(), None)])]
        anyc = z3.Plus(charset(rx.complement_ranges([(10, 10)])))
        shape = concat([sp, lit(fname + " = "), z3.Option(q), anyc, z3.Option(q), sp, NL()])
    elif kind == "int":
        variants = [("bare", True, [(Bs(), None), (lit(fname + " = "), None), (E, None), (Ds(), 1), (E, None), (Bs(), None)])]
        shape = concat([sp, lit(fname + " = "), z3.Option(q), z3.Plus(uD()), z3.Option(q), sp, NL()])
    else:
        variants = [("bare", True, [(Bs(), None), (lit(fname + " = "), None), (E, None), (union([lit("bass"), lit("rhythm")]), 1), (E, None), (Bs(), None)])]
        shape = concat([sp, lit(fname + " = "), z3.Option(q), z3.Plus(charset(rx.complement_ranges([(34, 34)]))), z3.Option(q), sp, NL()])
    return check_recogniser(f"field/{f}", pattern, variants, shape, timeout_ms, 1)


def disjoint(timeout_ms):
    live = specs_live()
    names = sorted(live)
    langs = {n: Pattern(live[n].regex, exclude=()).language() for n in names}
    obs = []
    for i, a in enumerate(names):
        for b in names[i + 1:]:
            obs.append(decide_empty(f"rx/fields/disjoint/{a}-{b}", [langs[a], langs[b]], timeout_ms, f"one line feeds both {a} and {b}"))
    return obs


def ground():
    """Closed facts read from the live package (ground obligations)."""
    md = live_module("chartparse.metadata")
    live = specs_live()
    obs = []

    def g(name, ok, detail):
        o = Ob("rx/fields/ground/" + name, "ground")
        o.backend = "ground"
        o.status = "discharged" if ok else "refuted"
        o.reason = str(detail)[:300]
        if not ok:
            o.model = {"detail": str(detail)[:300]}
        obs.append(o)
    g("the-24-fields", sorted(live) == sorted(FIELDS), sorted(set(live) ^ set(FIELDS)))
    for f, (fname, kind) in FIELDS.items():
        if f not in live:
            continue
        fn = live[f].processing_fn
        if kind == "int":
            g(f"{f}/decodes-with-int", fn is int, fn)
        elif kind == "str":
            g(f"{f}/kept-verbatim", fn is str, fn)
        else:
            try:
                ok = fn("bass") is md.Player2Instrument.BASS and fn("rhythm") is md.Player2Instrument.RHYTHM
            except Exception as e:
                ok = False
            g(f"{f}/decodes-to-enumeration-member", ok, fn)
    flds = {x.name: x for x in dataclasses.fields(md.Metadata)}
    g("dataclass-fields", sorted(flds) == sorted(FIELDS), sorted(set(flds) ^ set(FIELDS)))
    for f in FIELDS:
        if f == "resolution" or f not in flds:
            continue
        d = flds[f].default
        want = DEFAULTS.get(f, None)
        if f == "player2":
            ok = d is md.Player2Instrument.BASS
        else:
            ok = (d == want and type(d) is type(want))
        g(f"default/{f}", ok, f"default {d!r}, documented {want!r}")
    g("resolution-is-required", flds.get("resolution") is not None and flds["resolution"].default is dataclasses.MISSING, "resolution default")
    params = md.Metadata.__dataclass_params__
    g("frozen", params.frozen, params)
    return obs


def header(timeout_ms):
    C = live_module("chartparse.chart").Chart
    pattern = C._header_tag_regex
    tag = z3.Plus(text_no_linebreak())
    variants = [("bracketed", True, [(lit("["), None), (tag, 1), (lit("]"), None)])]
    shape = concat([lit("["), z3.Plus(charset(rx.complement_ranges([(10, 10)]))), lit("]"), NL()])
    return check_recogniser("header", pattern, variants, shape, timeout_ms, 1) + header_ground()


def header_ground():
    """Closed facts about the track-header format, read from the live package: the statement's
    '40 <Difficulty><Instrument> headers'.  (That from_file's own lookup table IS this table is a
    proof obligation of Chart.from_file[routing]: hint current-section-pair / header-names-its-pair.)"""
    import itertools
    ins = live_module("chartparse.instrument")
    C = live_module("chartparse.chart").Chart
    obs = []

    def g(name, ok, detail):
        o = Ob("rx/header/ground/" + name, "ground")
        o.backend = "ground"
        o.status = "discharged" if ok else "refuted"
        o.reason = str(detail)[:300]
        if not ok:
            o.model = {"detail": str(detail)[:300]}
        obs.append(o)
    import typing
    I = [m for m in ins.Instrument if not isinstance(m.value, typing.TypeVar)]
    D = [m for m in ins.Difficulty if not isinstance(m.value, typing.TypeVar)]
    tags = [d.value + i.value for i, d in itertools.product(I, D)]
    g("forty-track-headers", len(I) * len(D) == 40 and len(tags) == 40, f"{len(I)} instruments x {len(D)} difficulties")
    g("headers-pairwise-distinct", len(set(tags)) == len(tags), [t for t in tags if tags.count(t) > 1][:6])
    req = list(getattr(C, "_required_header_tags", ()))
    g("required-sections-are-song-synctrack-events", sorted(req) == ["Events", "Song", "SyncTrack"], req)
    g("no-track-header-is-a-required-section", not (set(tags) & set(req)), sorted(set(tags) & set(req)))
    md, st, ge = live_module("chartparse.metadata").Metadata, live_module("chartparse.sync").SyncTrack, live_module("chartparse.globalevents").GlobalEventsTrack
    g("section-names-of-the-three-parsers", (md.header_tag, st.header_tag, ge.header_tag) == ("Song", "SyncTrack", "Events"), (md.header_tag, st.header_tag, ge.header_tag))
    # the label a track reports for itself is the header it is read from
    bad = []
    for i, d in itertools.product(I, D):
        t = object.__new__(ins.InstrumentTrack)
        object.__setattr__(t, "instrument", i)
        object.__setattr__(t, "difficulty", d)
        try:
            if t.header_tag != d.value + i.value:
                bad.append((i, d, t.header_tag))
        except Exception as e:
            bad.append((i, d, repr(e)))
    g("track-header_tag-is-its-section-header", not bad, bad[:4])
    return obs
