"""rxvc: the shipped regular expressions as SMT regex terms.

The pattern strings are read from the live classes every run and parsed with CPython's own
re._parser.  Supported: literals, classes (ranges, negation, \\d, \\s with their full Unicode
extension as computed from the running `re`), '.', greedy/lazy repeats, (non-)capturing groups,
optional groups, alternation, '^', final '$' (= end, or just before one final newline).
Anything else raises Unsupported (the obligations are then undecided)."""
from __future__ import annotations

import functools
import re
import re._parser as sre

import z3

MAXC = 0x2FFFF                      # z3's largest character
MARKS = [chr(0xE000 + i) for i in range(6)]     # private-use marker characters


class Unsupported(Exception):
    pass


def _ranges(pred):
    out, start = [], None
    for c in range(MAXC + 1):
        if pred(c):
            if start is None:
                start = c
        elif start is not None:
            out.append((start, c - 1))
            start = None
    if start is not None:
        out.append((start, MAXC))
    return out


@functools.lru_cache(None)
def category_ranges(cat, flags=0):
    """Code point ranges of \\d / \\s (and negations) as the running `re` module sees them."""
    pat = {"CATEGORY_DIGIT": r"\d", "CATEGORY_SPACE": r"\s", "CATEGORY_WORD": r"\w"}.get(cat)
    if pat is None:
        raise Unsupported(cat)
    prog = re.compile(pat, flags)

    def ok(c):
        if 0xD800 <= c <= 0xDFFF:
            return False
        return prog.match(chr(c)) is not None
    return tuple(_ranges(ok))


@functools.lru_cache(None)
def linebreak_chars():
    """Characters str.splitlines() splits on (so no line contains them)."""
    return tuple(c for c in range(MAXC + 1) if not (0xD800 <= c <= 0xDFFF) and len(("a" + chr(c) + "b").splitlines()) > 1)


def ch(c):
    return z3.StringVal(chr(c) if isinstance(c, int) else c)


def rng(lo, hi):
    if lo == hi:
        return z3.Re(ch(lo))
    return z3.Range(ch(lo), ch(hi))


def union(rs):
    rs = list(rs)
    if not rs:
        return z3.Empty(z3.ReSort(z3.StringSort()))
    return rs[0] if len(rs) == 1 else z3.Union(*rs)


def concat(rs):
    rs = [r for r in rs if r is not None]
    if not rs:
        return z3.Re(z3.StringVal(""))
    return rs[0] if len(rs) == 1 else z3.Concat(*rs)


def charset(ranges, exclude=()):
    """Regex of one character in the given code point ranges minus the excluded characters."""
    ex = sorted({ord(e) if isinstance(e, str) else e for e in exclude})
    out = []
    for lo, hi in ranges:
        cur = lo
        for e in ex:
            if cur <= e <= hi:
                if e > cur:
                    out.append((cur, e - 1))
                cur = e + 1
        if cur <= hi:
            out.append((cur, hi))
    return union(rng(a, b) for a, b in out)


def complement_ranges(ranges):
    out, cur = [], 0
    for lo, hi in sorted(ranges):
        if lo > cur:
            out.append((cur, lo - 1))
        cur = max(cur, hi + 1)
    if cur <= MAXC:
        out.append((cur, MAXC))
    return out


def class_ranges(items, flags=0):
    """Ranges of an IN node (flags: 0 or re.ASCII, which narrows the categories)."""
    neg = False
    rs = []
    for op, av in items:
        name = str(op)
        if name == "NEGATE":
            neg = True
        elif name == "LITERAL":
            rs.append((av, av))
        elif name == "RANGE":
            rs.append((av[0], av[1]))
        elif name == "CATEGORY":
            cname = str(av)
            if cname.startswith("CATEGORY_NOT_"):
                rs.extend(complement_ranges(category_ranges("CATEGORY_" + cname[len("CATEGORY_NOT_"):], flags)))
            else:
                rs.extend(category_ranges(cname, flags))
        else:
            raise Unsupported(name)
    rs = _merge(rs)
    return complement_ranges(rs) if neg else rs


def _merge(rs):
    out = []
    for lo, hi in sorted(rs):
        if out and lo <= out[-1][1] + 1:
            out[-1] = (out[-1][0], max(out[-1][1], hi))
        else:
            out.append((lo, hi))
    return out


class Item:
    """One top-level item of a pattern: sub-tree, repetition kind and capture group number."""

    def __init__(self, tree, kind, group=None, inner=None):
        self.tree = tree        # list of sre nodes
        self.kind = kind        # fixed | lazy | greedy | opt (greedy optional group with inner items)
        self.group = group
        self.inner = inner

    def __repr__(self):
        return f"Item({self.kind}, g={self.group})"


class Pattern:
    def __init__(self, pattern: str, exclude=MARKS):
        if isinstance(pattern, re.Pattern):        # the shipped compiled object: keeps its flags
            prog, pattern = pattern, pattern.pattern
        else:
            prog = re.compile(pattern)
        self.pattern = pattern
        self.exclude = tuple(exclude)
        if prog.flags & ~(re.UNICODE | re.ASCII):
            raise Unsupported("flags")
        self.cflags = re.ASCII if prog.flags & re.ASCII else 0     # re.ASCII only narrows \d \s \w
        self.ngroups = prog.groups
        self.tree = list(sre.parse(pattern))
        # anchors
        body = self.tree
        if body and str(body[0][0]) == "AT" and str(body[0][1]) == "AT_BEGINNING":
            body = body[1:]
        self.end_anchor = False
        if body and str(body[-1][0]) == "AT" and str(body[-1][1]) == "AT_END":
            body = body[:-1]
            self.end_anchor = True
        for op, av in body:
            if str(op) == "AT":
                raise Unsupported("inner anchor")
        self.body = body
        self._markers_alike(body)
        self.items = [self._item(n) for n in body]

    def _markers_alike(self, nodes):
        """Checked every run (was an assumption): no literal, negated literal or class of the pattern
        separates the marker characters from each other, so a marker stands for an arbitrary text
        character of the surrounding class.  A pattern that does is outside the encoding."""
        marks = [ord(m) for m in self.exclude]
        if not marks:
            return
        for op, av in nodes:
            name = str(op)
            if name in ("LITERAL", "NOT_LITERAL"):
                if av in marks:
                    raise Unsupported("pattern names a private-use marker character")
            elif name == "IN":
                rs = class_ranges(av, self.cflags)
                inside = {any(lo <= m <= hi for lo, hi in rs) for m in marks}
                if len(inside) != 1:
                    raise Unsupported("a character class separates the private-use marker characters")
            elif name in ("MAX_REPEAT", "MIN_REPEAT"):
                self._markers_alike(av[2])
            elif name == "SUBPATTERN":
                self._markers_alike(av[3])
            elif name == "BRANCH":
                for b in av[1]:
                    self._markers_alike(b)

    # ---- translation
    def node(self, op, av, ins=None):
        name = str(op)
        if name == "LITERAL":
            r = z3.Re(ch(av))
        elif name == "NOT_LITERAL":
            r = charset(complement_ranges([(av, av)]), self.exclude)
        elif name == "ANY":
            r = charset(complement_ranges([(10, 10)]), self.exclude)
        elif name == "IN":
            r = charset(class_ranges(av, self.cflags), self.exclude)
        elif name in ("MAX_REPEAT", "MIN_REPEAT"):
            lo, hi, sub = av
            inner = self.seq(sub, ins)
            if hi == sre.MAXREPEAT:
                r = z3.Star(inner) if lo == 0 else (z3.Plus(inner) if lo == 1 else z3.Concat(z3.Loop(inner, lo, lo), z3.Star(inner)))
            elif (lo, hi) == (0, 1):
                r = z3.Option(inner)
            else:
                r = z3.Loop(inner, lo, hi)
            return r
        elif name == "SUBPATTERN":
            g, add, dele, sub = av
            if add or dele:
                raise Unsupported("inline flags")
            return self.seq(sub, ins)
        elif name == "BRANCH":
            return union(self.seq(b, ins) for b in av[1])
        else:
            raise Unsupported(name)
        if ins is not None:
            r = z3.Concat(r, ins)
        return r

    def seq(self, nodes, ins=None):
        return concat([self.node(op, av, ins) for op, av in nodes])

    def end(self):
        return z3.Option(z3.Re(ch(10))) if self.end_anchor else z3.Star(charset([(0, MAXC)], ()))

    def language(self):
        """Strings s with pattern.match(s) is not None."""
        return z3.Concat(self.seq(self.body), self.end())

    # ---- items
    def _item(self, n):
        op, av = n
        name = str(op)
        if name in ("MAX_REPEAT", "MIN_REPEAT"):
            lo, hi, sub = av
            if lo == hi:
                return Item([n], "fixed")
            if (lo, hi) == (0, 1) and name == "MAX_REPEAT":
                body = sub[0][1][3] if (len(sub) == 1 and str(sub[0][0]) == "SUBPATTERN" and sub[0][1][0] is None) else sub
                inner = [self._item(x) for x in body]
                if any(i.kind != "fixed" for i in inner):
                    return Item([n], "opt", inner=inner)
            return Item([n], "lazy" if name == "MIN_REPEAT" else "greedy")
        if name == "SUBPATTERN":
            g, add, dele, sub = av
            if len(sub) == 1:
                it = self._item(sub[0])
                if it.kind in ("lazy", "greedy", "fixed") and it.inner is None:
                    return Item([n], it.kind, group=g)
            kinds = [self._item(x).kind for x in sub]
            if all(k == "fixed" for k in kinds):
                return Item([n], "fixed", group=g)
            raise Unsupported("group with several variable items")
        if name == "BRANCH":
            raise Unsupported("top-level alternation")
        return Item([n], "fixed")

    def group_subpattern(self, g):
        """sre nodes of capture group g."""
        found = []

        def walk(nodes):
            for op, av in nodes:
                name = str(op)
                if name == "SUBPATTERN":
                    if av[0] == g:
                        found.append(av[3])
                    walk(av[3])
                elif name in ("MAX_REPEAT", "MIN_REPEAT"):
                    walk(av[2])
                elif name == "BRANCH":
                    for b in av[1]:
                        walk(b)
        walk(self.body)
        if len(found) != 1:
            raise Unsupported(f"group {g}")
        return found[0]


# ---------------------------------------------------------------------- solving
def empty(regexes, timeout_ms=20000, extra=None):
    """Is the intersection of the regexes empty?  -> ('unsat'|'sat'|'unknown', witness)"""
    s = z3.Solver()
    s.set("timeout", timeout_ms)
    x = z3.String("line")
    for r in regexes:
        s.add(z3.InRe(x, r))
    if extra is not None:
        s.add(extra(x))
    res = s.check()
    if res == z3.sat:
        return "sat", unescape(s.model()[x].as_string())
    return ("unsat" if res == z3.unsat else "unknown"), None


def unescape(t):
    """z3 prints non-ASCII characters as \\u{hex}: back to the real string"""
    import re as _re
    return _re.sub(r"\\u\{([0-9a-fA-F]+)\}", lambda m: chr(int(m.group(1), 16)), t)


def subset(a, b, timeout_ms=20000):
    """L(a) subset of L(b)?  decided as emptiness of a & ~b."""
    return empty([a, z3.Complement(b)], timeout_ms)
