"""rxvc obligations: what the shipped recognisers accept, reject and capture.

For a recogniser R (pattern read from the live class) and a specification written from the
property statement as a list of parts aligned with R's top-level items:

  accept/part j      Spec part j  is included in  L(item j)      (the intended decomposition is valid)
  capture/item j     no better competitor: no spec line has, for the variable item j, a decomposition
                     that agrees on items < j, gives item j a *preferred* length (shorter if lazy,
                     longer if greedy) and still lets the remaining items match.  One SMT query over a
                     single string with private-use markers; a `sat` answer is a concrete line.
  shape              L(R) is included in Shape                   (lines of any other shape never match)

With the assumed contract of re (leftmost-priority backtracking) these give, for every spec line:
match succeeds and groups() are exactly the spec's parts."""
from __future__ import annotations

import time
import traceback

import z3

from . import rx
from .rx import Pattern, MARKS, charset, concat, union, ch, MAXC, rng

L_, R_, H_ = MARKS[0], MARKS[1], MARKS[2]      # item start, item end, competitor mark


def lit(s):
    return z3.Re(z3.StringVal(s))


def B():
    """blank padding of the statement ("any blank padding"): every white-space character that can occur
    inside a line (Unicode \\s without the line-break characters), not only space / tab"""
    lb = set(rx.linebreak_chars())
    cs = [c for lo, hi in rx.category_ranges("CATEGORY_SPACE") for c in range(lo, hi + 1) if c not in lb]
    return charset([(c, c) for c in cs], MARKS)


def Bs():
    return z3.Star(B())


def D():
    """a digit of the statement ("any digit strings"): every decimal digit int() decodes (Unicode \\d)"""
    return charset(rx.category_ranges("CATEGORY_DIGIT"), MARKS)


def Ds():
    return z3.Plus(D())


def NM():
    """any character that is not a marker"""
    return charset([(0, MAXC)], MARKS)


def text_no_linebreak(exclude=()):
    """one character that can occur inside a line (no line-break character, no marker)"""
    return charset([(0, MAXC)], tuple(MARKS) + tuple(chr(c) for c in rx.linebreak_chars()) + tuple(exclude))


class Ob:
    def __init__(self, name, kind="rx"):
        self.name, self.kind = name, kind
        self.status, self.backend, self.seconds, self.reason, self.model = None, "z3-re", 0.0, "", None

    def to_json(self):
        d = {"name": self.name, "kind": self.kind, "status": self.status, "backend": self.backend,
             "seconds": round(self.seconds, 4), "reason": self.reason}
        if self.model is not None:
            d["model"] = self.model
        return d


def decide_empty(name, regexes, timeout_ms, witness_note="", extra=None):
    ob = Ob(name)
    t0 = time.time()
    res, w = rx.empty(regexes, timeout_ms, extra)
    ob.seconds = time.time() - t0
    if res == "unsat":
        ob.status = "discharged"
    elif res == "sat":
        ob.status = "refuted"
        line = "".join(c for c in w if c not in MARKS)
        ob.model = {"line": line, "marked": w, "note": witness_note}
        ob.reason = "z3: sat"
    else:
        ob.status = "undecided"
        ob.reason = "z3: unknown/timeout"
    return ob


def flatten_items(p: Pattern, take_opt):
    """Top-level items with consecutive fixed non-group items merged; optional groups either
    spliced in (taken) or dropped (skipped).  Returns list of (kind, group, regex over Sigma,
    builder(ins) for the regex with optional inserted marker)."""
    out = []
    def add(items):
        for it in items:
            if it.kind == "opt":
                if take_opt:
                    add(it.inner)
                else:
                    out.append(("optskip", None, it))
                continue
            if it.kind == "fixed" and it.group is None and out and out[-1][0] == "fixed" and out[-1][1] is None:
                out[-1] = ("fixed", None, out[-1][2] + [it])
            else:
                out.append((it.kind, it.group, [it]))
    add(p.items)
    return out


def item_regex(p, its, ins=None):
    if isinstance(its, rx.Item):
        its = [its]
    return concat([p.seq(i.tree, ins) for i in its])


def rest_regex(p, flat, j, ins=None):
    rs = []
    for kind, g, its in flat[j:]:
        rs.append(item_regex(p, its, ins))
    rs.append(p.end())
    return concat(rs)


def check_recogniser(label, pattern, spec_variants, shape, timeout_ms, expect_groups=None):
    """spec_variants: list of (variant name, take_opt, [(regex part, group or None)]) aligned with the flattened items."""
    obs = []
    p = Pattern(pattern)
    if expect_groups is not None:
        o = Ob(f"rx/{label}/group-count")
        o.status = "discharged" if p.ngroups == expect_groups else "refuted"
        o.backend = "ground"
        o.reason = f"pattern has {p.ngroups} groups, spec expects {expect_groups}"
        if o.status == "refuted":
            o.model = {"pattern": p.pattern}
        obs.append(o)
    # shape: nothing else is accepted (independent of how the pattern is itemised)
    if shape is not None:
        res, w = rx.subset(p.language(), shape, timeout_ms)
        o = Ob(f"rx/{label}/shape/accepts-only-lines-of-this-shape")
        o.status = {"unsat": "discharged", "sat": "refuted"}.get(res, "undecided")
        if res == "sat":
            o.model = {"line": w, "note": "accepted although not of the stated shape"}
            o.reason = "z3: sat"
        obs.append(o)
    for vname, take_opt, parts in spec_variants:
        flat = flatten_items(p, take_opt)
        # whole-line acceptance (independent of itemisation)
        res, w = rx.subset(concat([q for q, _ in parts]), p.language(), timeout_ms)
        o = Ob(f"rx/{label}/{vname}/accepts-every-line-of-the-stated-form")
        o.status = {"unsat": "discharged", "sat": "refuted"}.get(res, "undecided")
        if res == "sat":
            o.model = {"line": w, "note": "a line of the stated form is not accepted"}
            o.reason = "z3: sat"
        obs.append(o)
        if len(flat) != len(parts):
            o = Ob(f"rx/{label}/{vname}/capture/alignment")
            o.status = "undecided"
            o.reason = f"pattern has {len(flat)} items, spec has {len(parts)} parts: capture obligations cannot be bound"
            obs.append(o)
            continue
        # how the text AFTER the last capturing item is split among the remaining items cannot
        # change any captured group (priority is leftmost): no decomposition obligation there
        last_cap = max([j for j, ((_, g_, _), (_, sg_)) in enumerate(zip(flat, parts)) if g_ or sg_] or [-1])
        for j, ((kind, g, its), (part, sg)) in enumerate(zip(flat, parts)):
            if kind == "optskip":
                # intended: optional group not taken.  A taken optional is preferred: it must be impossible.
                pre = concat([q for q, _ in parts[:j]])
                post = concat([q for q, _ in parts[j + 1:]] + [p.end()])
                body = item_regex(p, its.inner)
                r1 = concat([pre, lit(L_), post])
                r3 = concat([z3.Star(NM()), lit(L_), body, rest_regex(p, flat, j + 1)])
                obs.append(decide_empty(f"rx/{label}/{vname}/capture/item{j}-optional-not-preferred-here", [r1, r3], timeout_ms,
                                        "the optional group would be taken on this line"))
                continue
            if g != sg:
                raise rx.Unsupported(f"{label}/{vname}: item {j} is group {g}, spec says {sg}")
            # accept: spec part within the item's language
            res, w = rx.subset(part, item_regex(p, its), timeout_ms)
            o = Ob(f"rx/{label}/{vname}/accept/item{j}" + (f"-group{g}" if g else ""))
            o.status = {"unsat": "discharged", "sat": "refuted"}.get(res, "undecided")
            if res == "sat":
                o.model = {"part": w}
                o.reason = "z3: sat"
            obs.append(o)
            if kind not in ("lazy", "greedy") or j > last_cap:
                continue
            pre = concat([q for q, _ in parts[:j]])
            post = concat([q for q, _ in parts[j + 1:]] + [p.end()])
            hopt = z3.Option(lit(H_))
            # R1: the spec line with item j delimited, '#' insertable anywhere after the start mark
            r1 = concat([pre, lit(L_), hopt, _ins(part, hopt), lit(R_), hopt, _ins(post, hopt)])
            nm = z3.Star(NM())
            if kind == "lazy":
                r2 = concat([nm, lit(L_), nm, lit(H_), z3.Plus(NM()), lit(R_), nm])
                r3 = concat([nm, lit(L_), item_regex(p, its), lit(H_), rest_regex(p, flat, j + 1, z3.Option(lit(R_)))])
            else:
                r2 = concat([nm, lit(L_), nm, lit(R_), z3.Plus(NM()), lit(H_), nm])
                r3 = concat([nm, lit(L_), z3.Option(lit(R_)), item_regex(p, its, z3.Option(lit(R_))), lit(H_), rest_regex(p, flat, j + 1)])
            obs.append(decide_empty(f"rx/{label}/{vname}/capture/item{j}-{kind}" + (f"-group{g}" if g else "") + "-no-better-competitor",
                                    [r1, r2, r3], timeout_ms, f"item {j} would match up to the '#' mark instead"))
    return obs


def _ins(r, opt):
    """regex r with `opt` insertable between characters: approximated structurally by
    interleaving at the top-level Concat/Star/Plus/Option/Union/Range/Re nodes."""
    d = r.decl().kind()
    if d == z3.Z3_OP_RE_CONCAT:
        return z3.Concat(*[_ins(c, opt) for c in r.children()])
    if d == z3.Z3_OP_RE_UNION:
        return z3.Union(*[_ins(c, opt) for c in r.children()])
    if d == z3.Z3_OP_RE_STAR:
        return z3.Star(_ins(r.arg(0), opt))
    if d == z3.Z3_OP_RE_PLUS:
        return z3.Plus(_ins(r.arg(0), opt))
    if d == z3.Z3_OP_RE_OPTION:
        return z3.Option(_ins(r.arg(0), opt))
    if d == z3.Z3_OP_RE_RANGE:
        return z3.Concat(r, opt)
    if d == z3.Z3_OP_SEQ_TO_RE:
        s = r.arg(0)
        if z3.is_string_value(s):
            txt = s.as_string()
            if not txt:
                return r
            return z3.Concat(*[x for c in txt for x in (z3.Re(z3.StringVal(c)), opt)])
    if d == z3.Z3_OP_RE_LOOP:
        lo = r.params()[0]
        hi = r.params()[1] if len(r.params()) > 1 else None
        return z3.Loop(_ins(r.arg(0), opt), lo, hi) if hi is not None else z3.Loop(_ins(r.arg(0), opt), lo)
    raise rx.Unsupported(f"_ins on {r.decl()}")
