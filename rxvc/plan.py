def units_for(prop, reg, tier):
    from . import specs
    units = []
    R = specs.RECOGNISERS()
    for k, spec in R.items():
        if prop in spec["props"]:
            units.append(("rxvc.specs:run", f"rx-recogniser:{k}"))
    if prop in ("C07", "C08", "C09", "C14", "C18"):
        units.append(("rxvc.specs:run", "rx-facts:all"))
    if prop == "C14":
        units += [("rxvc.specs:run", "rx-disjoint:sync"), ("rxvc.specs:run", "rx-disjoint:instrument")]
    if prop == "C09":
        units.append(("rxvc.specs:run", "rx-classify:global"))
    try:
        from . import metadata
        units += metadata.units_for(prop)
    except ImportError:
        pass
    return units
