"""Specifications of the line shapes, written from the property statements (C07-C10, C14), and
the rxvc units.  Patterns are read from the live classes on every run."""
from __future__ import annotations

import time
import traceback

import z3

from pyvc.source import live_module
from . import rx
from .rx import Pattern, charset, concat, union, ch, MAXC
from .obl import (lit, B, Bs, D, Ds, NM, text_no_linebreak, Ob, check_recogniser, decide_empty)


def _cls(path):
    mod, q = path.split(":")
    o = live_module(mod)
    for part in q.split("."):
        o = getattr(o, part)
    return o


def pat_of(path):
    return _cls(path)._regex_prog        # the compiled object, so that its flags are translated too


def uS():
    """\\s as the running re sees it"""
    return charset(rx.category_ranges("CATEGORY_SPACE"))


def uD():
    return charset(rx.category_ranges("CATEGORY_DIGIT"))


def NL():
    return z3.Option(lit("\n"))


def shape(*parts):
    return concat(list(parts) + [NL()])


I = "chartparse.instrument:"
Sy = "chartparse.sync:"
G = "chartparse.globalevents:"


def word():
    """a track-event word: one or more characters that are not white space (statement: '<word>')"""
    ws = [chr(c) for lo, hi in rx.category_ranges("CATEGORY_SPACE") for c in range(lo, hi + 1)]
    return z3.Plus(charset([(0, MAXC)], tuple(rx.MARKS) + tuple(ws)))


def X():
    """any text inside a line (quotes, blanks, '=', non-ASCII ...)"""
    return z3.Star(text_no_linebreak())


def RECOGNISERS():
    sp, sd = z3.Star(uS()), z3.Plus(uD())
    notsp = z3.Star(charset(rx.complement_ranges([(32, 32)])))
    noquote = lambda: z3.Star(text_no_linebreak(exclude=('"',)))
    t = {}
    t["N"] = dict(path=I + "NoteEvent.ParsedData", groups=3, props=["C07", "C14"],
                  variants=[("canonical", True, [(Bs(), None), (Ds(), 1), (lit(" = N "), None), (z3.Range(ch("0"), ch("7")), 2), (lit(" "), None), (Ds(), 3), (Bs(), None)])],
                  shape=shape(sp, sd, lit(" = N "), z3.Range(ch("0"), ch("7")), lit(" "), sd, sp))
    t["S"] = dict(path=I + "StarPowerEvent.ParsedData", groups=2, props=["C07", "C14"],
                  variants=[("canonical", True, [(Bs(), None), (Ds(), 1), (lit(" = S 2 "), None), (Ds(), 2), (Bs(), None)])],
                  shape=shape(sp, sd, lit(" = S 2 "), sd, sp))
    t["E"] = dict(path=I + "TrackEvent.ParsedData", groups=2, props=["C07", "C14"],
                  variants=[("canonical", True, [(Bs(), None), (Ds(), 1), (lit(" = E "), None), (word(), 2), (Bs(), None)])],
                  shape=shape(sp, sd, lit(" = E "), notsp, sp))
    t["B"] = dict(path=Sy + "BPMEvent.ParsedData", groups=2, props=["C08", "C14"],
                  variants=[("canonical", True, [(Bs(), None), (Ds(), 1), (lit(" = B "), None), (Ds(), 2), (Bs(), None)])],
                  shape=shape(sp, sd, lit(" = B "), sd, sp))
    t["TS"] = dict(path=Sy + "TimeSignatureEvent.ParsedData", groups=3, props=["C08", "C14"],
                   variants=[("upper-only", False, [(Bs(), None), (Ds(), 1), (lit(" = TS "), None), (Ds(), 2), (None, None), (Bs(), None)]),
                             ("upper-and-lower", True, [(Bs(), None), (Ds(), 1), (lit(" = TS "), None), (Ds(), 2), (lit(" "), None), (Ds(), 3), (Bs(), None)])],
                   shape=shape(sp, sd, lit(" = TS "), sd, z3.Option(z3.Concat(lit(" "), sd)), sp))
    t["A"] = dict(path=Sy + "AnchorEvent.ParsedData", groups=2, props=["C08", "C14"],
                  variants=[("canonical", True, [(Bs(), None), (Ds(), 1), (lit(" = A "), None), (Ds(), 2)])],
                  shape=shape(sp, sd, lit(" = A "), sd))
    anyline = z3.Star(charset(rx.complement_ranges([(10, 10)])))
    t["Lyric"] = dict(path=G + "LyricEvent.ParsedData", groups=2, props=["C09", "C14"],
                      variants=[("canonical", True, [(Bs(), None), (Ds(), 1), (lit(' = E "lyric '), None), (X(), 2), (lit('"'), None), (Bs(), None)])],
                      shape=shape(sp, sd, lit(' = E "lyric '), anyline, lit('"'), sp))
    t["Section"] = dict(path=G + "SectionEvent.ParsedData", groups=2, props=["C09", "C14"],
                        variants=[("canonical", True, [(Bs(), None), (Ds(), 1), (lit(' = E "section '), None), (X(), 2), (lit('"'), None), (Bs(), None)])],
                        shape=shape(sp, sd, lit(' = E "section '), anyline, lit('"'), sp))
    t["Text"] = dict(path=G + "TextEvent.ParsedData", groups=2, props=["C09", "C14"],
                     variants=[("canonical", True, [(Bs(), None), (Ds(), 1), (lit(' = E "'), None), (noquote(), 2), (lit('"'), None), (Bs(), None)])],
                     shape=shape(sp, sd, lit(' = E "'), z3.Star(charset(rx.complement_ranges([(34, 34)]))), lit('"'), sp))
    return t


def result(name, obs, t0, notes=(), status="ok", reason=""):
    return {"name": name, "engine": "rxvc", "status": status, "reason": reason, "obligations": [o.to_json() for o in obs],
            "assumptions": ["re: Pattern.match uses leftmost-priority backtracking (greedy items prefer longer, lazy items shorter, optional groups prefer to participate)"],
            "callees": [], "notes": list(notes), "seconds": time.time() - t0, "sha": "", "paths": 0}


def run(reg, idx, name, timeout_ms=None, seed=0):
    t0 = time.time()
    timeout_ms = timeout_ms or 20000
    try:
        kind, _, arg = name.partition(":")
        if kind == "rx-recogniser":
            spec = RECOGNISERS()[arg]
            pattern = pat_of(spec["path"])
            variants = [(v, take, [(q if q is not None else z3.Re(z3.StringVal("")), g) for q, g in parts]) for v, take, parts in spec["variants"]]
            obs = check_recogniser(arg, pattern, variants, spec["shape"], timeout_ms, spec["groups"])
            return result(name, obs, t0, notes=[f"pattern {pattern!r}"])
        if kind == "rx-facts":
            return result(name, group_facts(reg, timeout_ms), t0)
        if kind == "rx-disjoint":
            return result(name, disjoint(arg, timeout_ms), t0)
        if kind == "rx-classify":
            return result(name, classify(timeout_ms), t0)
        raise KeyError(name)
    except rx.Unsupported as e:
        return result(name, [], t0, status="undecided", reason=f"Unsupported: {e}")
    except Exception as e:
        return result(name, [], t0, status="error", reason="".join(traceback.format_exception(e))[-1500:])


# ---------------------------------------------------------------------- facts used by pyvc
def group_facts(reg, timeout_ms):
    """Every capture fact that pyvc uses as an axiom (contracts' rx_facts) is an obligation here:
    the group's own sub-pattern only matches decimal digit strings / the stated digit range."""
    obs = []
    dplus = z3.Plus(uD())
    for pattern, facts in sorted(reg.rx_facts.items()):
        p = Pattern(pattern, exclude=())
        for fact in facts:
            g, kind = fact[0], fact[1]
            sub = p.seq(p.group_subpattern(g))
            if kind == "digits":
                target, what = dplus, "digits"
            elif kind == "range":
                target, what = union([z3.Re(z3.StringVal(str(d))) for d in range(fact[2], fact[3] + 1)]), f"range-{fact[2]}-{fact[3]}"
            elif kind == "oneof":
                target, what = union([z3.Re(z3.StringVal(s)) for s in fact[2]]), "oneof"
            else:
                continue
            res, w = rx.subset(sub, target, timeout_ms)
            o = Ob(f"rx/facts/{pattern}/group{g}/{what}")
            o.status = {"unsat": "discharged", "sat": "refuted"}.get(res, "undecided")
            if res == "sat":
                o.model = {"group_text": w}
                o.reason = "z3: sat"
            obs.append(o)
    return obs


# ---------------------------------------------------------------------- C14: no string claimed twice
def disjoint(section, timeout_ms):
    sets = {"sync": ["B", "TS", "A"], "instrument": ["N", "S", "E"]}[section]
    R = RECOGNISERS()
    langs = {k: Pattern(pat_of(R[k]["path"]), exclude=()).language() for k in sets}
    obs = []
    for i, a in enumerate(sets):
        for b in sets[i + 1:]:
            obs.append(decide_empty(f"rx/disjoint/{section}/{a}-{b}", [langs[a], langs[b]], timeout_ms, f"claimed by both {a} and {b}"))
    return obs


# ---------------------------------------------------------------------- C09: classification
def classify(timeout_ms):
    R = RECOGNISERS()
    lang = {k: Pattern(pat_of(R[k]["path"]), exclude=()).language() for k in ("Lyric", "Section", "Text")}
    obs = []
    x = lambda: z3.Star(text_no_linebreak())
    sec_lines = concat([Bs(), Ds(), lit(' = E "section '), x(), lit('"'), Bs()])
    obs.append(decide_empty("rx/classify/section-line-is-not-a-lyric", [sec_lines, lang["Lyric"]], timeout_ms, "a section line is claimed as lyric"))
    noq = z3.Star(text_no_linebreak(exclude=('"',)))
    text_lines = concat([Bs(), Ds(), lit(' = E "'), noq, lit('"'), Bs()])
    not_prefixed = z3.Complement(concat([Bs(), Ds(), lit(' = E "'), union([lit("lyric "), lit("section ")]), z3.Star(charset([(0, MAXC)]))]))
    obs.append(decide_empty("rx/classify/other-text-is-not-a-lyric", [text_lines, not_prefixed, lang["Lyric"]], timeout_ms, "a plain text line is claimed as lyric"))
    obs.append(decide_empty("rx/classify/other-text-is-not-a-section", [text_lines, not_prefixed, lang["Section"]], timeout_ms, "a plain text line is claimed as section"))
    # the kind order given to the dispatcher must try Lyric and Section before Text (read from the live AST)
    import ast
    from pyvc.source import SourceIndex
    idx = SourceIndex()
    f = idx.funcs.get("chartparse.globalevents:GlobalEventsTrack._parse_data_from_chart_lines")
    order = None
    if f is not None:
        # names bound exactly once to a tuple/list literal in this function
        lits = {}
        for n in ast.walk(f.node):
            if isinstance(n, ast.Assign) and len(n.targets) == 1 and isinstance(n.targets[0], ast.Name):
                lits.setdefault(n.targets[0].id, []).append(n.value)
        for n in ast.walk(f.node):
            if isinstance(n, ast.Call) and ast.unparse(n.func).endswith("parse_data_from_chart_lines") and n.args:
                a0 = n.args[0]
                if isinstance(a0, ast.Name) and len(lits.get(a0.id, [])) == 1:
                    a0 = lits[a0.id][0]
                if isinstance(a0, (ast.Tuple, ast.List)):
                    order = [ast.unparse(e) for e in a0.elts]
    o = Ob("rx/classify/kinds-tried-lyric-section-text", "ground")
    o.backend = "ground"
    want = ["LyricEvent.ParsedData", "SectionEvent.ParsedData", "TextEvent.ParsedData"]
    if order is None:
        # the kind list is not a literal at the call site any more: not decidable here (the
        # dispatcher units of pyvc and their native oracle still check the order that is used)
        o.status = "undecided"
    else:
        short = [x.split(".")[-2] + "." + x.split(".")[-1] if x.count(".") >= 1 else x for x in order]
        o.status = "discharged" if short == want and short.index("TextEvent.ParsedData") == 2 else \
            ("discharged" if set(short) == set(want) and short[-1] == "TextEvent.ParsedData" else "refuted")
    o.reason = f"order in source: {order}"
    if o.status == "refuted":
        o.model = {"order": order}
    obs.append(o)
    return obs
