#!/bin/sh
# usage: mutrx.sh <file> <old> <new> -- <rx unit names...>
set -e
F="$1"; OLD="$2"; NEW="$3"; shift 4
D=$(mktemp -d /tmp/mut.XXXXXX)
cp -r /repo/chartparse "$D/chartparse"
OLD="$OLD" NEW="$NEW" python3 - "$D/chartparse/$F" <<'PY'
import sys,os
p=sys.argv[1]; s=open(p).read()
old=os.environ["OLD"]; new=os.environ["NEW"]
assert s.count(old)>=1, "pattern not found"
open(p,"w").write(s.replace(old,new,1))
PY
CHARTPARSE_REPO="$D" PYTHONPATH=/verif/.deps:/verif:"$D" /venv/bin/python ${RUNNER:-/tmp/runrx.py} "$@" 2>&1 | grep -v WARNING | cut -c1-400 || true
rm -rf "$D"
