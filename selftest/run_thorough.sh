#!/bin/sh
# every thorough command once on the tree under test (expected: exit 0 everywhere on the unchanged tree)
cd "$(dirname "$0")/.."
for p in C01 C02 C03 C04 C05 C06 C07 C08 C09 C10 C11 C12 C13 C14 C15 C16 C17 C18 C19; do
  ./check $p --tier thorough 2>/dev/null | grep -E "VIOLATION|level="
done
