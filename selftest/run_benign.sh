#!/bin/sh
# Runs every check against each behaviour-preserving refactoring in seeded/benign (scratch copy outside /repo and /verif).
# Expected: no VIOLATION line, exit 0 (level may drop to 'other' where a contract binding is lost).
# usage: run_benign.sh [diff-name ...]   (env PROPS="C01 C02 ..." to restrict)
cd "$(dirname "$0")/.."; V=$(pwd)
NAMES="$@"; [ -z "$NAMES" ] && NAMES=$(ls seeded/benign | sed 's/\.diff$//')
PROPS=${PROPS:-"C01 C02 C03 C04 C05 C06 C07 C08 C09 C10 C11 C12 C13 C14 C15 C16 C17 C18 C19"}
for n in $NAMES; do
  D=$(mktemp -d /tmp/ben.XXXXXX)
  cp -r /repo/chartparse "$D/chartparse"
  (cd "$D" && patch -p1 -s < $V/seeded/benign/$n.diff) || { echo "$n: patch failed"; rm -rf "$D"; continue; }
  echo "== $n"
  for p in $PROPS; do
    out=$(CHARTPARSE_REPO="$D" ./check $p 2>/dev/null | grep -E "VIOLATION|level=" | sed "s#$D#<scratch>#g")
    echo "$out" | grep -E "VIOLATION|level=other|exit=[13]" | cut -c1-220
  done
  rm -rf "$D"
done
