#!/bin/sh
# usage: mutcheck.sh <file-in-chartparse> <old> <new> -- <property ids...>
# Applies one textual mutation to a scratch copy of /repo (outside /repo and /verif), runs ./check per property, removes it.
F="$1"; OLD="$2"; NEW="$3"; shift 4
D=$(mktemp -d /tmp/mut.XXXXXX)
cp -r /repo/chartparse "$D/chartparse"
OLD="$OLD" NEW="$NEW" python3 - "$D/chartparse/$F" <<'PY' || { rm -rf "$D"; exit 2; }
import sys,os
p=sys.argv[1]; s=open(p).read()
old=os.environ["OLD"]; new=os.environ["NEW"]
assert s.count(old)>=1, "pattern not found"
open(p,"w").write(s.replace(old,new,1))
PY
for p in "$@"; do
  CHARTPARSE_REPO="$D" /verif/check $p 2>/dev/null | grep -E "VIOLATION|level=|KNOWN" | sed "s#$D#<scratch>#g" | cut -c1-300
done
rm -rf "$D"
