#!/bin/sh
# Cross-property matrix: apply one seeded change to a scratch copy and run OTHER properties' checks.
# usage: run_cross.sh <seeded-id> <prop> [prop ...]
# A VIOLATION of a property the change does not break is a false alarm of that check (judge by hand).
cd "$(dirname "$0")/.."; V=$(pwd)
id=$1; shift
D=$(mktemp -d /tmp/cross.XXXXXX)
cp -r /repo/chartparse "$D/chartparse"
(cd "$D" && patch -p1 -s < $V/seeded/$id/patch.diff) || { echo "$id: patch failed"; rm -rf "$D"; exit 2; }
for p in "$@"; do
  out=$(CHARTPARSE_REPO="$D" ./check $p 2>/dev/null | grep -E "VIOLATION|level=" | sed "s#$D#<scratch>#g" | tr '\n' ' ')
  echo "$id x $p: $out"
done
rm -rf "$D"
