#!/bin/sh
# Runs each check against each seeded change (scratch copy of /repo outside /repo and /verif).
# usage: run_seeded.sh [id ...]
cd "$(dirname "$0")/.."; V=$(pwd)
IDS="$@"; [ -z "$IDS" ] && IDS=$(ls seeded | grep -v benign)
for id in $IDS; do
  prop=$(echo $id | cut -c1-3)
  D=$(mktemp -d /tmp/seed.XXXXXX)
  cp -r /repo/chartparse "$D/chartparse"
  (cd "$D" && patch -p1 -s < $V/seeded/$id/patch.diff) || { echo "$id: patch failed"; rm -rf "$D"; continue; }
  out=$(CHARTPARSE_REPO="$D" ./check $prop 2>/dev/null | grep -E "VIOLATION|level=" | sed "s#$D#<scratch>#g")
  echo "== $id"; echo "$out"
  rm -rf "$D"
done
