#!/bin/sh
# usage: ingest.sh <worktree-id e.g. R2-C03> <seeded-id e.g. C03b>
# copies patch+demo from /tmp/wt-<id>, confirms suite + demo on /repo (apply, run, revert), removes the worktree, runs the check
W=/tmp/wt-$1; S=/verif/seeded/$2
mkdir -p $S; cp $W/patch.diff $S/patch.diff; cp $W/demo.py $S/demo_$2.py 2>/dev/null || cp $W/demo_*.py $S/demo_$2.py
cd /repo && git apply $S/patch.diff || { echo "patch does not apply"; exit 2; }
/venv/bin/python -m pytest -q -p no:cacheprovider 2>&1 | tail -1
PYTHONPATH=/repo /venv/bin/python $S/demo_$2.py >/dev/null 2>&1; echo "demo with change exit=$?"
git -C /repo checkout -- . ; PYTHONPATH=/repo /venv/bin/python $S/demo_$2.py >/dev/null 2>&1; echo "demo without exit=$?"
git -C /repo status --short
git -C /repo worktree remove --force $W; git -C /repo worktree prune
cd /verif && selftest/run_seeded.sh $2
