#!/bin/sh
# usage: ingest.sh <worktree-id e.g. R2-C03> <seeded-id e.g. C03b>
# copies patch+demo from /tmp/wt-<id>; confirms suite + demo with and without the change on a scratch
# copy of /repo (so that background runs that read /repo are not disturbed); removes the worktree; runs the check
W=/tmp/wt-$1; S=/verif/seeded/$2
mkdir -p $S; cp $W/patch.diff $S/patch.diff; cp $W/demo.py $S/demo_$2.py 2>/dev/null || cp $W/demo_*.py $S/demo_$2.py
D=$(mktemp -d /tmp/ing.XXXXXX)
(cd /repo && git archive HEAD) | tar -x -C $D
(cd $D && PYTHONPATH=$D /venv/bin/python $S/demo_$2.py >/dev/null 2>&1; echo "demo without exit=$?")
(cd $D && patch -p1 -s < $S/patch.diff) || { echo "patch does not apply"; rm -rf $D; exit 2; }
(cd $D && /venv/bin/python -m pytest -q -p no:cacheprovider 2>&1 | tail -1)
(cd $D && PYTHONPATH=$D /venv/bin/python $S/demo_$2.py >/dev/null 2>&1; echo "demo with change exit=$?")
rm -rf $D
git -C /repo worktree remove --force $W; git -C /repo worktree prune
cd /verif && selftest/run_seeded.sh $2
