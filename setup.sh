#!/bin/sh
# Offline setup: install z3-solver (pure python + libz3) for the repo's own interpreter
# (/venv/bin/python 3.12) into /verif/.deps from the local wheelhouse.
set -e
cd "$(dirname "$0")"
if [ ! -d .deps/z3 ]; then
  rm -rf .deps
  PIP_NO_INDEX=1 /venv/bin/python -m pip install -q --no-index --find-links /opt/veriftools/wheels \
      --target .deps z3-solver >/dev/null 2>&1 || { echo "setup: pip install z3-solver failed" >&2; exit 1; }
fi
/venv/bin/python -m compileall -q pyvc rxvc fxvc vlib contracts props 2>/dev/null || true
echo setup-ok
