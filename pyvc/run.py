"""Ad-hoc runner:  python -m pyvc.run <contract name substring> ..."""
import sys, json
from pyvc.source import SourceIndex
from pyvc.verify import verify_unit, decide_unit


def main():
    import contracts
    reg = contracts.build_registry()
    idx = SourceIndex()
    pats = sys.argv[1:]
    bad = 0
    for c in reg.all():
        if pats and not any(p in c.name for p in pats):
            continue
        r = decide_unit(reg, idx, c, timeout_ms=int(__import__('os').environ.get('PYVC_T','10000')))
        st = [o["status"] for o in r.obligations]
        print(f"== {r.name}: {r.status} {r.reason} obligations={len(st)} discharged={st.count('discharged')} "
              f"refuted={st.count('refuted')} undecided={st.count('undecided')} paths={r.paths} {r.seconds:.2f}s")
        for o in r.obligations:
            if o["status"] != "discharged":
                bad += 1
                print("   ", o["status"], o["name"], o["reason"], json.dumps(o.get("model"))[:600])
        for o in r.obligations:
            if o["seconds"] > 1.0:
                print("    slow:", o["name"], o["seconds"], o["backend"])
        for n in r.notes:
            if n.startswith("rx-fact"):
                continue
            print("    note:", n)
    from pyvc.solve import FEAS_STATS
    print('feasibility checks:', FEAS_STATS)
    return 1 if bad else 0


if __name__ == "__main__":
    sys.exit(main())
