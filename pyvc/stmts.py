"""Statements, loops (cut at invariants), exceptions."""
from __future__ import annotations

import ast

import z3

from . import values as V
from .values import (Val, INT, BOOL, REAL, STR, TD, NONE, CONC, IntS, BoolS, RealS, StrS, TdS,
                     NoneS, OptS, TupS, RecS, SeqS, EnumS, UnionS, MapS, DictS, ConcS, VNONE)
from .objects import (Closure, LocalClass, PyMap, Obj, ExcInst, MatchObj, BoundMethod,
                      BuiltinMethod, GenExp, RangeObj, EnumerateObj, FilterObj, IsliceObj,
                      ItemsObj, SymbolicFile)
from .state import State, OutOfSubset, BindingLost
from .engine import DeadPath, Outcome, FuncCtx, exc_class
from .calls import _is_docstring
from . import quant as Q

MAX_PATHS = 4000


class _NoMerge(Exception):
    pass


def loop_ordinals(fnode):
    """id(loop node) -> ordinal, in source order, not descending into nested defs/classes."""
    out = {}
    n = 0

    def walk(node):
        nonlocal n
        for ch in ast.iter_child_nodes(node):
            if isinstance(ch, (ast.FunctionDef, ast.AsyncFunctionDef, ast.ClassDef, ast.Lambda)):
                continue
            if isinstance(ch, (ast.For, ast.While)):
                out[id(ch)] = n
                n += 1
            walk(ch)
    walk(fnode)
    return out


def ownership_violations(fnode, module=None, nested=False):
    """pyvc's value model treats every container as a VALUE held by one variable: an in-place
    update (`xs.append(v)`, `d[k] = v`, `d[a][b] = v`) is a functional update of that variable.
    That is sound only if the updated container has no other name and is not visible to the
    caller: every name updated in place must be bound, in this function, only by fresh
    allocations (a literal, a comprehension, `[0] * n`, a constructor call).  Returns the list of
    violations (empty: the function is inside the subset)."""
    from fxvc.frames import is_alloc, MUTATORS
    a = fnode.args
    params = {x.arg for x in list(a.posonlyargs) + list(a.args) + list(a.kwonlyargs)}
    if a.vararg:
        params.add(a.vararg.arg)
    if a.kwarg:
        params.add(a.kwarg.arg)

    def nodes():
        stack = list(fnode.body)
        while stack:
            n = stack.pop()
            if isinstance(n, (ast.FunctionDef, ast.AsyncFunctionDef, ast.ClassDef, ast.Lambda)):
                continue
            yield n
            stack.extend(ast.iter_child_nodes(n))

    def root(t):
        while isinstance(t, (ast.Subscript, ast.Attribute)):
            t = t.value
        if isinstance(t, ast.Call) and isinstance(t.func, ast.Attribute) and t.func.attr in ("setdefault", "get"):
            return root(t.func.value)
        return t.id if isinstance(t, ast.Name) else None
    mutated = {}
    bindings = {}
    for n in nodes():
        if isinstance(n, (ast.Assign, ast.AnnAssign, ast.AugAssign)):
            targets = n.targets if isinstance(n, ast.Assign) else [n.target]
            for t in targets:
                for tt in (t.elts if isinstance(t, (ast.Tuple, ast.List)) else [t]):
                    if isinstance(tt, ast.Subscript):
                        r = root(tt)
                        if r:
                            mutated.setdefault(r, n.lineno)
                    elif isinstance(tt, ast.Name) and not isinstance(n, ast.AugAssign) and getattr(n, "value", None) is not None:
                        bindings.setdefault(tt.id, []).append(n.value if not isinstance(t, (ast.Tuple, ast.List)) else None)
                    elif isinstance(tt, ast.Name) and isinstance(n, ast.AugAssign) and is_alloc(n.value):
                        mutated.setdefault(tt.id, n.lineno)         # x += [...]: in-place update of a container
        elif isinstance(n, ast.Call) and isinstance(n.func, ast.Attribute) and n.func.attr in MUTATORS:
            r = root(n.func.value)
            if r and not (isinstance(n.func.value, ast.Name) and n.func.attr in ("get",)):
                mutated.setdefault(r, n.lineno)
        elif isinstance(n, (ast.For, ast.comprehension)):
            for e in ast.walk(n.target):
                if isinstance(e, ast.Name):
                    bindings.setdefault(e.id, []).append(None)
        elif isinstance(n, ast.withitem) and n.optional_vars is not None:
            for e in ast.walk(n.optional_vars):
                if isinstance(e, ast.Name):
                    bindings.setdefault(e.id, []).append(None)
    bad = []
    for r, line in sorted(mutated.items()):
        if r in ("self", "cls"):
            continue
        if r in params:
            bad.append(f"line {line}: in-place update of parameter {r!r}")
            continue
        bs = bindings.get(r)
        if not bs:
            if nested:
                continue        # a variable of the enclosing function: the closure is executed in its scope
            if module is not None:
                import types
                try:
                    from .source import live_module
                    if isinstance(getattr(live_module(module), r, None), types.ModuleType):
                        continue        # chartparse.tick.add(...): a module function, not a method of a container
                except Exception:
                    pass
            bad.append(f"line {line}: in-place update of {r!r}, which this function does not allocate")
        elif not all(b is not None and is_alloc(b) for b in bs):
            bad.append(f"line {line}: in-place update of {r!r}, which may be another name for an existing object")
    return bad


def assigned_in(stmts):
    """Names (and roots of container paths) possibly modified by executing stmts."""
    names = set()

    def root(t):
        while isinstance(t, (ast.Subscript, ast.Attribute)):
            t = t.value
        return t.id if isinstance(t, ast.Name) else None

    def target(t):
        if isinstance(t, ast.Name):
            names.add(t.id)
        elif isinstance(t, (ast.Tuple, ast.List)):
            for e in t.elts:
                target(e)
        elif isinstance(t, (ast.Subscript, ast.Attribute)):
            r = root(t)
            if r:
                names.add(r)
        elif isinstance(t, ast.Starred):
            target(t.value)

    for s in stmts:
        for n in ast.walk(s):
            if isinstance(n, (ast.FunctionDef, ast.Lambda, ast.ClassDef)) and n is not s:
                pass
            if isinstance(n, ast.Assign):
                for t in n.targets:
                    target(t)
            elif isinstance(n, (ast.AugAssign, ast.AnnAssign)):
                target(n.target)
            elif isinstance(n, (ast.For, ast.comprehension)):
                target(n.target)
            elif isinstance(n, ast.NamedExpr):
                target(n.target)
            elif isinstance(n, ast.Call) and isinstance(n.func, ast.Attribute) and \
                    n.func.attr in ("append", "extend", "insert", "pop", "remove", "clear", "update",
                                    "setdefault", "sort", "reverse", "add"):
                r = root(n.func.value)
                if r:
                    names.add(r)
            elif isinstance(n, ast.ExceptHandler) and n.name:
                names.add(n.name)
    return names


def calls_logger(stmts):
    for s in stmts:
        for n in ast.walk(s):
            if isinstance(n, ast.Call) and isinstance(n.func, ast.Attribute) and \
                    n.func.attr in ("warning", "error", "critical", "exception"):
                return True
    return False


def may_call(stmts):
    return any(isinstance(n, ast.Call) for s in stmts for n in ast.walk(s))


class StmtsMixin:
    # ------------------------------------------------------------------ blocks
    def exec_block(self, stmts, st: State):
        """Execute statements from state st; returns list of Outcomes."""
        live = [st]
        done = []
        for s in stmts:
            if _is_docstring(s):
                continue
            nxt = []
            for cur in live:
                for o in self.exec_stmt(s, cur):
                    if o.kind == "fall":
                        nxt.append(o.st)
                    else:
                        done.append(o)
            live = nxt
            if len(live) + len(done) > MAX_PATHS:
                raise OutOfSubset("path explosion")
            if not live:
                break
        return done + [Outcome("fall", s_) for s_ in live]

    def exec_stmt(self, node, st: State):
        self.cur_line = node.lineno - self.fctx.base_line
        outs = []
        for g in self.ghosts_for(node, before=True):
            self.run_ghost(g, st)
        try:
            m = getattr(self, "s_" + node.__class__.__name__, None)
            if m is None:
                raise OutOfSubset(f"statement {node.__class__.__name__} at line {node.lineno}")
            res = m(node, st)
        except DeadPath:
            res = []
        outs.extend(self.side)
        self.side = []
        for o in res:
            if o.kind == "fall":
                for g in self.ghosts_for(node, before=False):
                    self.run_ghost(g, o.st)
        outs.extend(res)
        return outs

    # ------------------------------------------------------------------ ghost code
    def ghosts_for(self, node, before):
        gs = self.unit.ghosts
        if not gs:
            return []
        out = []
        for g in gs:
            if g.before != before:
                continue
            if g.where is not None and g.where != self.fctx.qualname:
                continue
            if g.where is None and self.fctx.qualname != self.unit_qualname:
                continue
            txt = getattr(node, "_unparsed", None)
            if txt is None:
                # compound statements: only their header line is matched
                try:
                    txt = ast.unparse(node) if not isinstance(node, (ast.For, ast.While, ast.If, ast.Try, ast.With, ast.FunctionDef, ast.ClassDef)) else None
                except Exception:
                    txt = None
                node._unparsed = txt or ""
            if txt and txt == g.anchor_norm():
                out.append(g)
                self.ghost_hits.add(id(g))
        return out

    def run_ghost(self, g, st):
        tree = ast.parse(g.code)
        self.spec_mode += 1
        try:
            for s in tree.body:
                if isinstance(s, ast.Expr) and isinstance(s.value, ast.Call) and isinstance(s.value.func, ast.Name) \
                        and s.value.func.id == "hint" and len(s.value.args) == 2 and isinstance(s.value.args[0], ast.Constant):
                    # proof hint (cut): the fact is an obligation at this point and then a hypothesis
                    f = self.truth(self.eval(s.value.args[1], st.sub({}, st.cur)), st)
                    self.ctx.oblige(f"hint/{s.value.args[0].value}", st, f, kind="hint")
                    st.pc.append(f)
                    continue
                if isinstance(s, ast.Expr) and isinstance(s.value, ast.Call) and isinstance(s.value.func, ast.Name) \
                        and s.value.func.id == "rebind" and len(s.value.args) == 2 and isinstance(s.value.args[0], ast.Constant):
                    # replace the symbolic value of a program variable by an equal, simpler term:
                    # the equality is an obligation (value unchanged => behaviour unchanged)
                    name = s.value.args[0].value
                    old = st.lookup(name)
                    if old is None:
                        raise BindingLost(f"rebind: no variable {name}")
                    new = self.as_sym(self.eval(s.value.args[1], st.sub({}, st.cur)))
                    try:
                        new = V.coerce(new, self.as_sym(old).shape)
                    except V.ShapeError as e:
                        raise BindingLost(f"rebind {name}: {e}")
                    self.ctx.oblige(f"hint/rebind-{name}-is-the-same-value", st, self.py_eq(self.as_sym(old), new), kind="hint")
                    st.rebind(name, new)
                    continue
                if not isinstance(s, (ast.Assign, ast.AugAssign)):
                    raise BindingLost("ghost code must be assignments, hint(name, fact) or rebind(var, term)")
                targets = s.targets if isinstance(s, ast.Assign) else [s.target]
                for t in targets:
                    if not (isinstance(t, ast.Name) and t.id.startswith("g_")):
                        raise BindingLost("ghost code may only assign ghost variables (g_ prefix)")
                r = self.exec_stmt_raw(s, st)
        finally:
            self.spec_mode -= 1

    def exec_stmt_raw(self, node, st):
        m = getattr(self, "s_" + node.__class__.__name__)
        return m(node, st)

    # ------------------------------------------------------------------ simple statements
    def s_Pass(self, node, st):
        return [Outcome("fall", st)]

    def s_Expr(self, node, st):
        v = node.value
        if isinstance(v, ast.Call):
            # container mutation through a method: xs.append(v), d[k].append(v)
            if isinstance(v.func, ast.Attribute) and v.func.attr == "append" and len(v.args) == 1:
                cont = self.eval(v.func.value, st)
                if isinstance(cont.shape, SeqS):
                    item = self.as_sym(self.eval(v.args[0], st))
                    if cont.shape.elem is None:
                        cont = V.vseq_empty(item.shape)
                    try:
                        new = V.seq_append(cont, item)
                    except V.ShapeError as e:
                        raise OutOfSubset(f"append: {e}")
                    self.assign_path(v.func.value, new, st)
                    return [Outcome("fall", st)]
            return self.call_stmt(v, st, lambda val, s: [Outcome("fall", s)])
        self.eval(v, st)
        return [Outcome("fall", st)]

    def call_stmt(self, callnode, st, k):
        """Evaluate a call in statement position; closures with statement bodies fork paths."""
        callee, args, kwargs = self.prepare_call(callnode, st)
        clo = self.stmt_inline_target(callee)
        if clo is None:
            val = self.finish_call(callee, args, kwargs, st, callnode)
            return k(val, st)
        kwargs.pop("__starstar__", None)
        outs = []
        results = self.inline_stmt_closure(clo, args, kwargs, st)
        if len(results) > 1:
            merged = self.merge_results(results, st)
            if merged is not None:
                results = [merged]
        for val, s2 in results:
            outs.extend(k(val, s2))
        return outs

    # ------------------------------------------------------------------ path merging
    def merge_results(self, results, st0):
        """Join the normal outcomes of an inlined closure into one state (ite over the path
        conditions) when they differ only in variable values / presence of dict entries.
        Returns (val, state) or None when the outcomes cannot be joined."""
        try:
            vals = [v for v, _ in results]
            sts = [s for _, s in results]
            base = sts[0]
            # common prefix of the path conditions
            n = min(len(s.pc) for s in sts)
            k = 0
            while k < n and all(s.pc[k] is sts[0].pc[k] or z3.eq(s.pc[k], sts[0].pc[k]) for s in sts):
                k += 1
            conds = [z3.And(s.pc[k:]) if len(s.pc) > k else z3.BoolVal(True) for s in sts]
            if any(s.guards for s in sts):
                return None
            chain = [e.id for e in base._chain()]
            if any(s.cur != base.cur or [e.id for e in s._chain()] != chain for s in sts):
                return None
            out = base.copy()
            # scope levels of finished calls are dead: keep only the live chain
            out.levels = {i: out.levels[i] for i in chain}
            out.pc = list(base.pc[:k]) + [z3.Or(conds)]
            for lid, lvl in out.levels.items():
                names = set()
                for s in sts:
                    names |= set(s.levels[lid].vars)
                for name in names:
                    cands = [s.levels[lid].vars.get(name) for s in sts]
                    if any(c is None for c in cands):
                        if all(c is None or c is cands[0] for c in cands):
                            continue
                        return None
                    lvl.vars[name] = self.join_vals(cands, conds)
            val = self.join_vals(vals, conds)
            return val, out
        except _NoMerge:
            return None

    def join_vals(self, cands, conds):
        first = cands[0]
        if all(c is first for c in cands):
            return first
        if all(isinstance(c.shape, ConcS) for c in cands):
            objs = [c.d for c in cands]
            if all(o is objs[0] for o in objs):
                return first
            if all(isinstance(o, PyMap) for o in objs):
                if any(o.default is not None for o in objs):
                    raise _NoMerge()
                keys = []
                for o in objs:
                    for kk in o.items:
                        if kk not in keys:
                            keys.append(kk)
                m = PyMap(kind=objs[0].kind)
                for kk in keys:
                    have = [(o.items[kk], o.present.get(kk, z3.BoolVal(True)), c) for o, c in zip(objs, conds) if kk in o.items]
                    pres = z3.Or([z3.And(c, p) for _, p, c in have])
                    v = have[-1][0]
                    for vv, p, c in reversed(have[:-1]):
                        v = V.ite(c, self.as_sym(vv), self.as_sym(v))
                    m.items[kk] = v
                    if not z3.is_true(z3.simplify(pres)):
                        m.present[kk] = pres
                return V.vconc(m)
            raise _NoMerge()
        if any(isinstance(c.shape, ConcS) for c in cands):
            raise _NoMerge()
        v = cands[-1]
        for c, cond in reversed(list(zip(cands[:-1], conds[:-1]))):
            v = V.ite(cond, c, v)
        return v

    def inline_stmt_closure(self, c: Closure, args, kwargs, st):
        if self.inline_depth > 8:
            raise OutOfSubset("inline depth")
        self.fstack.append(self.make_fctx(c.module, c.qualname, c.node))
        try:
            bound = self.bind_args(c.node, args, kwargs, closure=c, st=st)
        except Exception:
            self.fstack.pop()
            raise
        self.inline_depth += 1
        saved = st.cur
        st.push(bound, c.env)
        try:
            outs = self.exec_block(c.node.body, st)
        finally:
            self.fstack.pop()
            self.inline_depth -= 1
        res = []
        for o in outs:
            if o.kind == "raise" and o.st is st:
                o.st = st.copy()        # keep the exceptional path apart from whatever continues on st
            o.st.cur = saved
            if o.kind == "raise":
                self.side.append(o)
            elif o.kind in ("return", "fall"):
                res.append((o.val if o.val is not None else VNONE, o.st))
            else:
                raise OutOfSubset("break/continue escaping a function")
        return res

    def make_fctx(self, module, qualname, fnode):
        f = FuncCtx(module, qualname)
        f.base_line = fnode.lineno
        f.loops = loop_ordinals(fnode)
        f.fnode = fnode
        return f

    def s_Assign(self, node, st):
        if isinstance(node.value, ast.Call):
            def k(val, s):
                for t in node.targets:
                    self.assign(t, val, s)
                return [Outcome("fall", s)]
            return self.call_stmt(node.value, st, k)
        val = self.eval(node.value, st)
        for t in node.targets:
            self.assign(t, val, st)
        return [Outcome("fall", st)]

    def s_AnnAssign(self, node, st):
        if node.value is None:
            return [Outcome("fall", st)]
        if isinstance(node.value, ast.Call):
            def k(val, s):
                self.assign(node.target, self.annotate(val, node.annotation, s), s)
                return [Outcome("fall", s)]
            return self.call_stmt(node.value, st, k)
        val = self.eval(node.value, st)
        self.assign(node.target, self.annotate(val, node.annotation, st), st)
        return [Outcome("fall", st)]

    def annotate(self, val, ann, st):
        """Use a declared local shape for empty containers ([] / dict())."""
        return val

    def s_AugAssign(self, node, st):
        cur = self.eval(_load(node.target), st)
        rhs = self.eval(node.value, st)
        val = self.binop(node.op, cur, rhs, st)
        if isinstance(node.target, ast.Name):
            st.rebind(node.target.id, val)
        else:
            self.assign_path(node.target, val, st)
        return [Outcome("fall", st)]

    def assign(self, target, val: Val, st):
        if isinstance(target, ast.Name):
            declared = self.unit.locals.get(target.id)
            if declared is not None and isinstance(val.shape, ConcS) and isinstance(val.d, PyMap) and isinstance(declared, (MapS, DictS)):
                try:
                    val = V.coerce(val, declared)
                except V.ShapeError as e:
                    raise BindingLost(f"local {target.id}: {e}")
            elif declared is not None and not isinstance(val.shape, ConcS):
                try:
                    val = V.coerce(val, declared)
                except V.ShapeError as e:
                    raise BindingLost(f"local {target.id}: {e}")
            elif isinstance(val.shape, SeqS) and val.shape.elem is None and declared is None:
                pass
            st.set_local(target.id, val)
            return
        if isinstance(target, (ast.Tuple, ast.List)):
            self.bind_target(target, val, st)
            return
        self.assign_path(target, val, st)

    def bind_target(self, target, val: Val, st):
        if isinstance(target, ast.Name):
            st.set_local(target.id, val)
            return
        if isinstance(target, (ast.Tuple, ast.List)):
            n = len(target.elts)
            if isinstance(val.shape, TupS):
                items = val.d
            elif isinstance(val.shape, ConcS) and isinstance(val.d, tuple):
                items = [self.lift(x) for x in val.d]
            else:
                raise OutOfSubset(f"unpacking {val.shape}")
            if len(items) != n:
                self.raise_side(st, "ValueError", z3.BoolVal(True))
                raise DeadPath()
            for t, v in zip(target.elts, items):
                self.bind_target(t, v, st)
            return
        raise OutOfSubset("binding target")

    def assign_path(self, target, newval: Val, st):
        """Functional update of the container reached through `target`, written back to the
        variable at the root of the path."""
        if isinstance(target, ast.Name):
            st.rebind(target.id, newval)
            return
        if isinstance(target, ast.Subscript):
            tv = target.value
            if isinstance(tv, ast.Call) and isinstance(tv.func, ast.Attribute) and tv.func.attr == "setdefault" and len(tv.args) == 2:
                # R.setdefault(k, dflt)[idx] = v :  R[k] = (R[k] if k in R else dflt) with [idx] = v
                R = self.eval(tv.func.value, st)
                k = self.eval(tv.args[0], st)
                dflt = self.eval(tv.args[1], st)
                ms = R.shape.map if isinstance(R.shape, DictS) else R.shape
                if not isinstance(ms, MapS):
                    raise OutOfSubset("setdefault on " + repr(R.shape))
                kk = V.leaves(V.coerce(self.as_sym(k), ms.key))[0]
                base = R.d[0] if isinstance(R.shape, DictS) else R
                stored = V.from_leaves(ms.val, [z3.Select(a, kk) for a in base.d[1]])
                inner = V.ite(z3.Select(base.d[0], kk), stored, V.coerce(dflt if isinstance(dflt.shape, ConcS) else self.as_sym(dflt), ms.val))
                idx = self.eval(target.slice, st)
                new_inner = self.store(inner, idx, newval, st)
                self.assign_path(tv.func.value, self.store(R, k, new_inner, st), st)
                return
            cont = self.eval(target.value, st)
            idx = self.eval(target.slice, st)
            self.assign_path(target.value, self.store(cont, idx, newval, st), st)
            return
        if isinstance(target, ast.Attribute):
            cont = self.eval(target.value, st)
            if isinstance(cont.shape, ConcS) and isinstance(cont.d, Obj):
                o = cont.d.copy()
                o.attrs[target.attr] = newval
                self.assign_path(target.value, V.vconc(o), st)
                return
            if isinstance(cont.shape, RecS):
                self.raise_side(st, "FrozenInstanceError", z3.BoolVal(True))
                raise DeadPath()
            raise OutOfSubset(f"attribute store on {cont.shape}")
        raise OutOfSubset("assignment target")

    def store(self, cont: Val, idx: Val, val: Val, st) -> Val:
        s = cont.shape
        if isinstance(s, SeqS):
            i = self.norm_index(self._int(self.as_sym(idx)), cont.d[1], st)
            if s.elem is None:
                raise OutOfSubset("store into list of unknown element shape")
            try:
                return V.seq_store(cont, i, self.as_sym(val))
            except V.ShapeError as e:
                raise OutOfSubset(f"store: {e}")
        if isinstance(s, ConcS) and isinstance(cont.d, PyMap):
            m = cont.d.copy()
            if isinstance(idx.shape, ConcS):
                key = idx.d
            elif isinstance(idx.shape, StrS) and z3.is_string_value(idx.d):
                key = idx.d.as_string()
            else:
                raise OutOfSubset("store into concrete-key dict with symbolic key")
            m.items[key] = val
            m.present.pop(key, None)
            return V.vconc(m)
        if isinstance(val.shape, ConcS) and isinstance(val.d, IsliceObj):
            vs = (s.val if isinstance(s, (DictS, MapS)) else None)
            if isinstance(vs, V.ViewS):
                if val.d.seq is not vs.base and not (val.d.seq.d[1] is vs.base.d[1]):
                    raise OutOfSubset("islice over a different list than the declared view base")
                val = Val(vs, (val.d.lo, val.d.hi))
            else:
                val = self.islice_to_seq(val.d)
        if isinstance(s, (DictS, MapS)):
            ik = self.as_sym(idx)
            ks = s.key
            if isinstance(ik.shape, OptS) and not isinstance(ks, OptS):
                # the key expression is Optional: the declared key type excludes None
                self.ctx.oblige(f"L{self.cur_line}/dict-key-is-not-None", st, z3.Not(ik.d[0]), kind="safety")
                idx = ik.d[1]
        if isinstance(s, DictS):
            kv = V.coerce(self.as_sym(idx), s.key)
            k = V.leaves(kv)[0]
            was = z3.Select(cont.d[0].d[0], k)
            newmap = self.store(cont.d[0], idx, val, st)
            keys = cont.d[1]
            newkeys = V.ite(was, keys, V.seq_append(keys, kv))
            return Val(s, (newmap, newkeys))
        if isinstance(s, MapS):
            k = V.leaves(V.coerce(self.as_sym(idx), s.key))[0]
            v = val if val.shape == s.val else V.coerce(val if isinstance(val.shape, ConcS) else self.as_sym(val), s.val)
            pres = z3.Store(cont.d[0], k, z3.BoolVal(True))
            arrs = [z3.Store(a, k, l) for a, l in zip(cont.d[1], V.leaves(v))]
            return Val(s, (pres, arrs))
        raise OutOfSubset(f"store into {s}")

    def s_Return(self, node, st):
        if node.value is None:
            return [Outcome("return", st, VNONE)]
        if isinstance(node.value, ast.Call):
            return self.call_stmt(node.value, st, lambda val, s: [Outcome("return", s, val)])
        return [Outcome("return", st, self.eval(node.value, st))]

    def s_Raise(self, node, st):
        if node.exc is None:
            raise OutOfSubset("bare raise")
        v = self.eval(node.exc, st)
        if isinstance(v.shape, ConcS):
            if isinstance(v.d, ExcInst):
                return [Outcome("raise", st, exc=v.d.cls.__name__)]
            if isinstance(v.d, type) and issubclass(v.d, BaseException):
                return [Outcome("raise", st, exc=v.d.__name__)]
        raise OutOfSubset("raise of non-exception value")

    def s_Assert(self, node, st):
        c = self.truth(self.eval(node.test, st), st)
        self.raise_side(st, "AssertionError", z3.Not(c))
        return [Outcome("fall", st)]

    def s_Break(self, node, st):
        return [Outcome("break", st)]

    def s_Continue(self, node, st):
        return [Outcome("continue", st)]

    def s_FunctionDef(self, node, st):
        q = self.fctx.qualname + ".<locals>." + node.name
        st.set_local(node.name, V.vconc(Closure(node, st.cur, q, self.fctx.module)))
        return [Outcome("fall", st)]

    def s_ClassDef(self, node, st):
        methods = [n.name for n in node.body if isinstance(n, ast.FunctionDef)]
        is_proto = any((isinstance(b, ast.Attribute) and b.attr == "Protocol") or
                       (isinstance(b, ast.Name) and b.id == "Protocol") for b in node.bases)
        st.set_local(node.name, V.vconc(LocalClass(node.name, node, methods, is_proto)))
        return [Outcome("fall", st)]

    def s_Global(self, node, st):
        raise OutOfSubset("global statement")

    def s_Nonlocal(self, node, st):
        raise OutOfSubset("nonlocal statement")

    # ------------------------------------------------------------------ control flow
    def s_If(self, node, st):
        c = self.truth(self.eval(node.test, st), st)
        cs = z3.simplify(c)
        outs = []
        if z3.is_true(cs):
            return self.exec_block(node.body, st)
        if z3.is_false(cs):
            return self.exec_block(node.orelse, st) if node.orelse else [Outcome("fall", st)]
        st_else = st.copy()
        st.pc.append(c)
        st_else.pc.append(z3.Not(c))
        if self.is_feasible(st):
            outs.extend(self.exec_block(node.body, st))
        if self.is_feasible(st_else):
            if node.orelse:
                outs.extend(self.exec_block(node.orelse, st_else))
            else:
                outs.append(Outcome("fall", st_else))
        return outs

    def s_Try(self, node, st):
        if node.finalbody:
            raise OutOfSubset("try/finally")
        handlers = []
        for h in node.handlers:
            if h.type is None:
                classes = (BaseException,)
            else:
                tv = self.eval(h.type, st)
                if not isinstance(tv.shape, ConcS):
                    raise OutOfSubset("except type")
                classes = tv.d if isinstance(tv.d, tuple) else (tv.d,)
            handlers.append((classes, h))
        outs = []
        for o in self.exec_block(node.body, st):
            if o.kind == "raise":
                ec = exc_class(o.exc)
                hit = next((h for classes, h in handlers if issubclass(ec, classes)), None)
                if hit is None:
                    outs.append(o)
                    continue
                if hit.name:
                    o.st.set_local(hit.name, V.vconc(ExcInst(ec)))
                outs.extend(self.exec_block(hit.body, o.st))
            elif o.kind == "fall" and node.orelse:
                outs.extend(self.exec_block(node.orelse, o.st))
            else:
                outs.append(o)
        return outs

    def s_With(self, node, st):
        if len(node.items) != 1:
            raise OutOfSubset("with statement form")
        it = node.items[0]
        ce = it.context_expr
        if not (isinstance(ce, ast.Call) and isinstance(ce.func, ast.Name) and ce.func.id == "open" and isinstance(it.optional_vars, ast.Name)):
            raise OutOfSubset("with statement other than `with open(...) as f`")
        for a in ce.args:
            self.eval(a, st)
        how = ast.unparse(ce)
        self.ctx.assumptions.add("open(path, 'r', encoding='utf-8-sig') yields the decoded text without a leading byte-order mark, newlines translated (universal newlines); closing the file has no effect on the result")
        self.ctx.oblige(f"L{self.cur_line}/file-opened-as-utf-8-sig-text", st,
                        z3.BoolVal("encoding='utf-8-sig'" in how and ("'r'" in how or ", 'rt'" in how or len(ce.args) == 1) and "'rb'" not in how and "newline=" not in how),
                        kind="ground", info={"call": how})
        st.set_local(it.optional_vars.id, V.vconc(SymbolicFile()))
        return self.exec_block(node.body, st)

    # ------------------------------------------------------------------ loops
    def loop_spec(self, node):
        ordn = self.fctx.loops.get(id(node))
        if ordn is None:
            raise OutOfSubset("loop not indexed")
        spec = self.unit.loops.get((self.fctx.qualname, ordn))
        if spec is None and self.fctx.qualname == self.unit_qualname:
            spec = self.unit.loops.get(ordn)
        self.loops_seen.add((self.fctx.qualname, ordn))
        return ordn, spec

    def s_For(self, node, st):
        itv = self.eval(node.iter, st)
        if isinstance(itv.shape, ConcS) and isinstance(itv.d, IsliceObj):
            itv = self.islice_to_seq(itv.d)
        items = self.static_items(itv)
        if items is not None:
            return self.unrolled_for(node, items, st)
        ordn, spec = self.loop_spec(node)
        if spec is None:
            raise OutOfSubset(f"loop {ordn} of {self.fctx.qualname} has no sidecar invariant")
        # classify
        filt = None
        mode = None
        if isinstance(itv.shape, SeqS):
            seq, lo, hi, mode = itv, z3.IntVal(0), itv.d[1], "seq"
        elif isinstance(itv.shape, ConcS) and isinstance(itv.d, RangeObj):
            seq, lo, hi, mode = None, itv.d.lo, itv.d.hi, "range"
        elif isinstance(itv.shape, ConcS) and isinstance(itv.d, EnumerateObj):
            seq, lo, hi, mode = itv.d.seq, z3.IntVal(0), itv.d.seq.d[1], "enum"
        elif isinstance(itv.shape, ConcS) and isinstance(itv.d, FilterObj):
            seq, lo, hi, mode = itv.d.seq, z3.IntVal(0), itv.d.seq.d[1], "seq"
            filt = itv.d.fn
        elif isinstance(itv.shape, ConcS) and isinstance(itv.d, ItemsObj):
            return self.items_for(node, itv.d, st, ordn, spec)
        else:
            raise OutOfSubset(f"for over {itv.shape} {itv.d!r}")
        tnames = assigned_in([ast.Assign(targets=[node.target], value=ast.Constant(0))])
        if mode == "range" and isinstance(node.target, ast.Name) and st.lookup(node.target.id) is None:
            # the loop variable is read after the loop only if it was bound: the range must be
            # non-empty when the variable is used later (python would raise UnboundLocalError)
            # (a `for ... else` whose else block assigns the variable binds it on the empty-range
            # path too - the else block runs whenever the loop ends without `break`: no obligation.
            # False alarm found by benign refactoring BEN-R7B1-1.)
            else_binds = any(isinstance(x, ast.Assign) and any(isinstance(t, ast.Name) and t.id == node.target.id for t in x.targets)
                             for x in node.orelse)
            if self.used_after(node, node.target.id) and not else_binds:
                self.ctx.oblige(f"loop{ordn}/loop-variable-bound-after-loop", st, lo < hi, kind="safety")
            st.set_local(node.target.id, V.fresh(INT, node.target.id))

        def bind(s, it):
            if mode == "range":
                self.bind_target(node.target, V.vint(it), s)
            else:
                e = V.seq_select(seq, it)
                s.assume(V.wf(e))
                if mode == "enum":
                    self.bind_target(node.target, V.vtup([V.vint(it), e]), s)
                else:
                    self.bind_target(node.target, e, s)

        def builtin_facts(s, it):
            facts = [it >= lo, z3.Or(it <= hi, it == lo)]
            if mode == "range" and isinstance(node.target, ast.Name):
                x = s.lookup(node.target.id)
                if x is not None and isinstance(x.shape, IntS):
                    facts.append(z3.Implies(it > lo, x.d == it - 1))
            return facts

        return self.cut_loop(node, st, ordn, spec, lo=lo, hi=hi, bind=bind, filt=filt,
                             extra_mod=tnames, builtin_facts=builtin_facts, seq=seq)

    def used_after(self, loopnode, name):
        fnode = self.fctx.fnode
        end = getattr(loopnode, "end_lineno", loopnode.lineno)
        for n in ast.walk(fnode):
            if isinstance(n, ast.Name) and n.id == name and isinstance(n.ctx, ast.Load) and n.lineno > end:
                return True
        return False

    def unrolled_for(self, node, items, st):
        live = [st]
        outs = []
        for item in items:
            nxt = []
            for cur in live:
                self.bind_target(node.target, item, cur)
                for o in self.exec_block(node.body, cur):
                    if o.kind in ("fall", "continue"):
                        nxt.append(o.st)
                    elif o.kind == "break":
                        outs.append(Outcome("fall", o.st))
                    else:
                        outs.append(o)
            live = nxt
        for cur in live:
            if node.orelse:
                outs.extend(self.exec_block(node.orelse, cur))
            else:
                outs.append(Outcome("fall", cur))
        return outs

    def s_While(self, node, st):
        ordn, spec = self.loop_spec(node)
        if spec is None:
            raise OutOfSubset(f"loop {ordn} of {self.fctx.qualname} has no sidecar invariant")
        return self.cut_loop(node, st, ordn, spec)

    def inv_eval(self, text, st):
        v = self.spec_eval_in(text, st)
        return self.truth(v, st)

    def spec_eval_in(self, text, st):
        node = self._spec_cache.get(text)
        if node is None:
            try:
                node = ast.parse(text.strip(), mode="eval").body
            except SyntaxError as e:
                raise BindingLost(f"contract expression does not parse: {text!r}: {e}")
            self._spec_cache[text] = node
        sub = st.sub({}, st.cur)
        self.spec_mode += 1
        try:
            return self.eval(node, sub)
        finally:
            self.spec_mode -= 1

    def havoc_var(self, name, st, keep_len=False):
        h = st.holder(name)
        if h is None:
            return
        v = h.vars[name]
        h.vars[name] = self.havoc_val(v, name, keep_len)
        nv = h.vars[name]
        if not isinstance(nv.shape, ConcS):
            from .quant import deep_wf
            st.assume(deep_wf(self, nv))

    def havoc_val(self, v: Val, name, keep_len=False):
        if isinstance(v.shape, ConcS):
            o = v.d
            if isinstance(o, PyMap):
                m = o.copy()
                if m.default is not None:
                    # a defaultdict may have gained default entries: materialise declared keys
                    keys = self.unit.map_keys.get(name, [])
                    for k in (keys() if callable(keys) else keys):
                        if k not in m.items:
                            m.items[k] = m.default(k)
                m.items = {k: self.havoc_val(x, f"{name}_{i}") for i, (k, x) in enumerate(m.items.items())}
                return V.vconc(m)
            if isinstance(o, Obj):
                n = o.copy()
                n.attrs = {k: self.havoc_val(x, f"{name}_{k}") for k, x in n.attrs.items()}
                return V.vconc(n)
            return v
        if isinstance(v.shape, SeqS) and v.shape.elem is None:
            raise BindingLost(f"local list {name!r} needs a declared element shape (contract locals)")
        f = V.fresh(v.shape, "h_" + name)
        if keep_len and isinstance(v.shape, SeqS):
            f = Val(v.shape, (f.d[0], v.d[1]))
        return f

    def cut_loop(self, node, st, ordn, spec, lo=None, hi=None, bind=None, filt=None,
                 extra_mod=(), builtin_facts=None, seq=None):
        is_for = lo is not None
        tag = f"loop{ordn}"
        body = node.body
        if self.unit.is_silent and not any(n == "logs-no-warning" for n, _ in spec.invariants):
            from .contract import LoopSpec
            spec = LoopSpec(spec.invariants + [("logs-no-warning", "_warnings == 0")], spec.decreases, spec.ghost_locals)
        # ---- entry
        if is_for:
            st.set_local("_it", V.vint(lo))
        for gname, gsh in spec.ghost_locals.items():
            pass
        for name, text in spec.invariants:
            self.ctx.oblige(f"{tag}/init/{name}", st, self.inv_eval(text, st), kind="loop-init")
        # ---- havoc
        mod = set(assigned_in(body)) | set(extra_mod)
        if not is_for:
            mod |= assigned_in([ast.Expr(node.test)])
        # ghost variables updated by ghost code anchored in the body
        for g in self.ghosts_inside(body):
            mod |= assigned_in(ast.parse(g.code).body)
        if calls_logger(body) or may_call(body):
            mod.add("_warnings")
        grow = self._growing(body)
        for name in sorted(mod):
            self.havoc_var(name, st, keep_len=(name not in grow))
        if is_for:
            it = z3.Int(V.fresh_name("it"))
            st.set_local("_it", V.vint(it))
            for f in builtin_facts(st, it):
                st.pc.append(f)
        havocked = {name: st.lookup(name) for name in mod}
        for name, text in spec.invariants:
            st.pc.append(self.inv_eval(text, st))
        outs = []
        # ---- exit path
        st_exit = st.copy()
        if is_for:
            st_exit.pc.append(it >= hi)
            exit_ok = self.is_feasible(st_exit)
        else:
            n_side = len(self.side)
            c_exit = self.truth(self.eval(node.test, st_exit), st_exit)
            # exceptions while evaluating the guard are reported from the iterate path
            del self.side[n_side:]
            st_exit.pc.append(z3.Not(c_exit))
            exit_ok = self.is_feasible(st_exit)
        if exit_ok:
            if node.orelse:
                outs.extend(self.exec_block(node.orelse, st_exit))
            else:
                outs.append(Outcome("fall", st_exit))
        # ---- iterate path
        if is_for:
            st.pc.append(it < hi)
        else:
            c = self.truth(self.eval(node.test, st), st)
            outs.extend(self.side)
            self.side = []
            st.pc.append(c)
        if not self.is_feasible(st):
            self.ctx.notes.append(f"{tag}: body unreachable under invariant")
            return outs
        self.loop_bodies_reached.add((self.fctx.qualname, ordn))
        variant0 = None
        if spec.decreases:
            variant0 = self._int(self.as_sym(self.spec_eval_in(spec.decreases, st)))
        try:
            if is_for:
                bind(st, it)
            body_states = [st]
            if filt is not None:
                item = V.seq_select(seq, it)
                keep = self.truth(self.as_sym(self.finish_call(filt, [item], {}, st)), st)
                skip = st.copy()
                skip.pc.append(z3.Not(keep))
                st.pc.append(keep)
                body_outs = []
                if self.is_feasible(skip):
                    body_outs.append(Outcome("continue", skip))
                if self.is_feasible(st):
                    body_outs.extend(self.exec_block(body, st))
            else:
                body_outs = self.exec_block(body, st)
        except DeadPath:
            body_outs = []
        body_outs.extend(self.side)
        self.side = []
        for o in body_outs:
            if o.kind in ("fall", "continue"):
                s2 = o.st
                # the cut is only sound if the state at the back edge is an instance of the havocked
                # state: every variable the body assigns must come back with the shape (and, for
                # python-side objects, the identity / key set) it was havocked with.  A variable
                # that starts as None or as a class object and is re-bound in the body needs a
                # declared shape (contract `locals`); otherwise the unit is out of subset.
                for name in sorted(mod):
                    if name in extra_mod:
                        continue        # the loop's own target: re-bound at the start of every iteration
                    hv, ev = havocked.get(name), s2.lookup(name)
                    if hv is None or ev is None:
                        continue
                    why = self._unstable(hv, ev)
                    if why:
                        raise OutOfSubset(f"loop {ordn}: variable {name!r} does not keep its shape across iterations ({why}); declare it in the contract's locals")
                if is_for:
                    s2.set_local("_it", V.vint(it + 1))
                    if bind is not None and isinstance(node.target, ast.Name) and builtin_facts is not None:
                        pass
                for name, text in spec.invariants:
                    self.ctx.oblige(f"{tag}/preserved/{name}", s2, self.inv_eval(text, s2), kind="loop-preserved")
                if variant0 is not None:
                    v1 = self._int(self.as_sym(self.spec_eval_in(spec.decreases, s2)))
                    self.ctx.oblige(f"{tag}/variant-decreases", s2, z3.And(variant0 >= 0, v1 < variant0), kind="loop-variant")
            elif o.kind == "break":
                outs.append(Outcome("fall", o.st))
            else:
                outs.append(o)
        return outs

    def _unstable(self, hv: Val, ev: Val):
        """why the end-of-iteration value ev is not an instance of the havocked value hv (or None)"""
        if isinstance(hv.shape, ConcS) or isinstance(ev.shape, ConcS):
            if not (isinstance(hv.shape, ConcS) and isinstance(ev.shape, ConcS)):
                return f"{hv.shape} vs {ev.shape}"
            a, b = hv.d, ev.d
            if isinstance(a, PyMap) and isinstance(b, PyMap):
                if set(a.items) != set(b.items) and b.default is None:
                    return f"dict keys {sorted(map(str, a.items))[:4]} vs {sorted(map(str, b.items))[:4]}"
                for k in a.items:
                    if k in b.items:
                        w = self._unstable(a.items[k], b.items[k])
                        if w:
                            return f"entry {k!r}: {w}"
                return None
            if isinstance(a, Obj) and isinstance(b, Obj):
                if set(a.attrs) != set(b.attrs):
                    return "attribute sets differ"
                for k in a.attrs:
                    w = self._unstable(a.attrs[k], b.attrs[k])
                    if w:
                        return f"attribute {k}: {w}"
                return None
            if a is b:
                return None
            try:
                if type(a) is type(b) and a == b and isinstance(a, (int, str, float, tuple, frozenset, type(None))):
                    return None
            except Exception:
                pass
            return f"re-bound python-side object ({type(a).__name__} -> {type(b).__name__})"
        if hv.shape != ev.shape:
            try:
                V.coerce(ev, hv.shape)
                return None
            except Exception:
                return f"{hv.shape} vs {ev.shape}"
        return None

    def _growing(self, stmts):
        """Names of lists whose length may change in stmts (append etc.)."""
        names = set()
        for s in stmts:
            for n in ast.walk(s):
                if isinstance(n, ast.Call) and isinstance(n.func, ast.Attribute) and n.func.attr in (
                        "append", "extend", "insert", "pop", "remove", "clear"):
                    t = n.func.value
                    while isinstance(t, (ast.Subscript, ast.Attribute)):
                        t = t.value
                    if isinstance(t, ast.Name):
                        names.add(t.id)
                elif isinstance(n, (ast.Assign, ast.AugAssign, ast.AnnAssign)):
                    targets = n.targets if isinstance(n, ast.Assign) else [n.target]
                    for t in targets:
                        if isinstance(t, ast.Name):
                            names.add(t.id)
                        elif isinstance(t, (ast.Tuple, ast.List)):
                            names.update(e.id for e in t.elts if isinstance(e, ast.Name))
        for g in self.ghosts_inside(stmts):
            names |= assigned_in(ast.parse(g.code).body)
        return names

    def ghosts_inside(self, stmts):
        """Ghost blocks whose anchor statement occurs (syntactically) inside stmts."""
        out = []
        for g in self.unit.ghosts:
            want = g.anchor_norm()
            hit = False
            for s in stmts:
                for n in ast.walk(s):
                    if isinstance(n, ast.stmt) and not isinstance(n, (ast.For, ast.While, ast.If, ast.Try, ast.With, ast.FunctionDef, ast.ClassDef)):
                        try:
                            if ast.unparse(n) == want:
                                hit = True
                                break
                        except Exception:
                            pass
                if hit:
                    break
            if hit:
                out.append(g)
        return out

    def items_for(self, node, items: ItemsObj, st, ordn, spec):
        mv = items.mapval
        if isinstance(mv.shape, MapS):
            return self.map_items_for(node, mv, st, ordn, spec)
        if not isinstance(mv.shape, DictS):
            raise OutOfSubset("iteration over the items of " + repr(mv.shape))
        keys = mv.d[1]
        ms = mv.shape.map

        def bind(s, it):
            kv = V.seq_select(keys, it)
            k = V.leaves(kv)[0]
            val = V.from_leaves(ms.val, [z3.Select(a, k) for a in mv.d[0].d[1]])
            s.assume(V.wf(kv))
            s.assume(Q.deep_wf(self, val))
            s.assume(z3.Select(mv.d[0].d[0], k))          # keys in the order sequence are present
            self.bind_target(node.target, V.vtup([kv, val]), s)

        tnames = assigned_in([ast.Assign(targets=[node.target], value=ast.Constant(0))])
        return self.cut_loop(node, st, ordn, spec, lo=z3.IntVal(0), hi=keys.d[1], bind=bind, extra_mod=tnames,
                             builtin_facts=lambda s, it: [it >= 0, it <= keys.d[1]], seq=keys)


    def map_items_for(self, node, mv, st, ordn, spec):
        """Iteration over a map whose insertion order is not modelled: an unknown number of
        iterations, each over SOME present key (an over-approximation of the real iteration:
        order, distinctness and completeness are dropped, so only facts true of every stored
        item can be used)."""
        ms = mv.shape
        n = z3.Int(V.fresh_name("nkeys"))
        st.pc.append(n >= 0)

        def bind(s, it):
            kv = V.fresh(ms.key, "mkey")
            s.assume(V.wf(kv))
            k = V.leaves(kv)[0]
            val = V.from_leaves(ms.val, [z3.Select(a, k) for a in mv.d[1]])
            s.assume(Q.deep_wf(self, val))
            s.assume(z3.Select(mv.d[0], k))
            self.bind_target(node.target, V.vtup([kv, val]), s)

        tnames = assigned_in([ast.Assign(targets=[node.target], value=ast.Constant(0))])
        return self.cut_loop(node, st, ordn, spec, lo=z3.IntVal(0), hi=n, bind=bind, extra_mod=tnames,
                             builtin_facts=lambda s, it: [it >= 0, it <= n], seq=None)


def _load(t):
    import copy
    t2 = copy.deepcopy(t)
    for n in ast.walk(t2):
        if hasattr(n, "ctx"):
            n.ctx = ast.Load()
    return t2
