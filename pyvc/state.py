"""Execution state, obligations and the per-unit verification context."""
from __future__ import annotations

import z3

from .floats import FloatModel


class OutOfSubset(Exception):
    """The real code uses something the front end does not translate: the unit is undecided."""


class BindingLost(Exception):
    """A sidecar contract can no longer be bound to the code (renamed name, loop count...)."""


_env_ids = __import__("itertools").count(1)


class Env:
    """One scope level.  Levels are addressed by id so that closures keep pointing at 'their'
    defining scope across state forks (python closures capture scopes by reference)."""
    __slots__ = ("id", "vars", "parent")

    def __init__(self, vars=None, parent=None, id=None):
        self.id = id if id is not None else next(_env_ids)
        self.vars = dict(vars or {})
        self.parent = parent      # id of the parent level or None


class State:
    def __init__(self, vars=None, pc=None, guards=None):
        root = Env(vars or {})
        self.levels = {root.id: root}
        self.cur = root.id
        self.pc = list(pc or [])
        self.guards = list(guards or [])

    # -- scopes
    def copy(self):
        s = State.__new__(State)
        s.levels = {i: Env(e.vars, e.parent, e.id) for i, e in self.levels.items()}
        s.cur = self.cur
        s.pc = list(self.pc)
        s.guards = list(self.guards)
        return s

    def push(self, vars, parent):
        e = Env(vars, parent)
        self.levels[e.id] = e
        self.cur = e.id
        return e.id

    def sub(self, vars, parent):
        """A state sharing pc/guards lists by value with a fresh scope level on top."""
        s = self.copy()
        s.push(vars, parent)
        return s

    def _chain(self, start=None):
        i = self.cur if start is None else start
        while i is not None:
            e = self.levels[i]
            yield e
            i = e.parent

    def lookup(self, name):
        for e in self._chain():
            if name in e.vars:
                return e.vars[name]
        return None

    def holder(self, name):
        for e in self._chain():
            if name in e.vars:
                return e
        return None

    def set_local(self, name, val):
        self.levels[self.cur].vars[name] = val

    def rebind(self, name, val):
        """Assign to the level that already holds `name` (container updates through closures),
        else to the current level."""
        h = self.holder(name)
        (h or self.levels[self.cur]).vars[name] = val

    def guard_cond(self):
        if not self.guards:
            return None
        return z3.And(self.guards) if len(self.guards) > 1 else self.guards[0]

    def assume(self, f):
        g = self.guard_cond()
        self.pc.append(f if g is None else z3.Implies(g, f))

    def full_pc(self, extra=None):
        pc = list(self.pc) + list(self.guards)
        if extra is not None:
            pc.append(extra)
        return pc


class Obligation:
    def __init__(self, name, pc, goal, kind="post", where=None, info=None):
        self.name = name
        self.pc = pc
        self.goal = goal
        self.kind = kind
        self.where = where
        self.info = info or {}
        self.status = None       # discharged | refuted | undecided
        self.backend = None
        self.seconds = 0.0
        self.model = None
        self.reason = ""


class VCtx:
    """Everything generated while executing one verification unit."""

    def __init__(self, unit_name):
        self.unit = unit_name
        self.fm = FloatModel()
        self.axioms = []          # instantiated axioms of spec functions (universally valid)
        self.obligations = []
        self.assumptions = set()  # textual list of assumed library contracts actually used
        self.callees = set()
        self.notes = []
        self.param_vals = {}
        self.paths = 0
        self.spec_cache = {}
        self.sum_defs = []
        self.finite_assumptions = []

    def all_axioms(self):
        return list(self.axioms) + list(self.fm.axioms)

    def oblige(self, name, st: State, goal, kind="post", extra_pc=None, info=None):
        pc = st.full_pc()
        if extra_pc:
            pc = pc + list(extra_pc)
        ob = Obligation(f"{self.unit}/{name}", pc, goal, kind=kind, info=info)
        self.obligations.append(ob)
        return ob
