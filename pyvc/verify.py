"""Driver: verify one unit (a function under its sidecar contract) and report obligations."""
from __future__ import annotations

import ast
import time
import traceback

import z3

from . import values as V
from .values import Val, ConcS, SeqS, OptS, TupS, RecS, EnumS, UnionS, IntS, BoolS, RealS, StrS, TdS, NoneS, MapS
from .contract import Contract, Conc
from .engine import Engine as _EngineBase, Outcome, exc_class, DeadPath
from .calls import CallsMixin
from .stmts import StmtsMixin
from .state import State, VCtx, OutOfSubset, BindingLost
from .solve import discharge, feasible
from .source import SourceIndex


class Engine(StmtsMixin, CallsMixin, _EngineBase):
    pass


class UnitResult:
    def __init__(self, name):
        self.name = name
        self.status = "ok"        # ok | undecided | error
        self.reason = ""
        self.obligations = []     # dicts
        self.assumptions = []
        self.callees = []
        self.notes = []
        self.seconds = 0.0
        self.sha = ""
        self.paths = 0

    def to_json(self):
        return self.__dict__


def _resolved(c, vars):
    import copy
    c2 = copy.copy(c)
    c2.result = c.result(vars)
    c2.locals = {k: (sh(vars) if callable(sh) and not isinstance(sh, V.Shape) else sh) for k, sh in c.locals.items()}
    return c2


def model_value(model, v: Val, depth=0):
    """Concrete python rendering of a symbolic value under a model (for replay)."""
    s = v.shape

    def ev(t):
        return model.eval(t, model_completion=True)
    if isinstance(s, IntS) or isinstance(s, TdS):
        r = ev(v.d)
        return r.as_long() if z3.is_int_value(r) else str(r)
    if isinstance(s, BoolS):
        return z3.is_true(ev(v.d))
    if isinstance(s, RealS):
        r = ev(v.d)
        try:
            return {"real": f"{r.numerator_as_long()}/{r.denominator_as_long()}"}
        except Exception:
            return {"real": str(r)}
    if isinstance(s, StrS):
        r = ev(v.d)
        return r.as_string() if z3.is_string_value(r) else str(r)
    if isinstance(s, NoneS):
        return None
    if isinstance(s, OptS):
        if z3.is_true(ev(v.d[0])):
            return None
        return model_value(model, v.d[1], depth)
    if isinstance(s, TupS):
        return {"tuple": [model_value(model, i, depth) for i in v.d]}
    if isinstance(s, RecS):
        return {"rec": s.key, "fields": {k: model_value(model, f, depth) for k, f in v.d.items()}}
    if isinstance(s, EnumS):
        if s.ordinal:
            i = model_value(model, v.d, depth)
            return {"enum": s.key, "value": s.members[i][1] if isinstance(i, int) and 0 <= i < len(s.members) else i}
        return {"enum": s.key, "value": model_value(model, v.d, depth)}
    if isinstance(s, UnionS):
        t = ev(v.d[0])
        i = t.as_long() if z3.is_int_value(t) else 0
        i = min(max(i, 0), len(v.d[1]) - 1)
        return model_value(model, v.d[1][i], depth)
    if isinstance(s, SeqS):
        n = ev(v.d[1])
        n = n.as_long() if z3.is_int_value(n) else 0
        n = max(0, min(n, 12))
        return {"seq": [model_value(model, V.seq_select(v, z3.IntVal(i)), depth + 1) for i in range(n)]}
    if isinstance(s, ConcS):
        return {"conc": repr(v.d)[:80]}
    if isinstance(s, MapS):
        return {"map": "symbolic"}
    return str(s)


def verify_unit(reg, idx: SourceIndex, c: Contract, timeout_ms=None, seed=0, discharge_now=True, finite=None, first_pass=False) -> UnitResult:
    t0 = time.time()
    res = UnitResult(c.name)
    ctx = VCtx(c.name)
    try:
        info = idx.funcs.get(c.key)
        if info is None:
            raise BindingLost(f"function {c.key} not found in /repo source")
        res.sha = info.sha
        eng = Engine(reg, idx, ctx, c)
        eng.finite = finite
        fctx = eng.make_fctx(info.module, info.qualname, info.node)
        eng.fstack.append(fctx)
        a = info.node.args
        sig = [p.arg for p in a.posonlyargs + a.args + a.kwonlyargs]
        for p in c.params:
            if p not in sig:
                raise BindingLost(f"contract parameter {p!r} not in signature of {c.key} {sig}")
        vars = {}
        for p, sh in c.params.items():
            if isinstance(sh, Conc):
                vars[p] = V.vconc(sh.get())
            else:
                vars[p] = V.fresh(sh, p)
        ctx.param_vals = dict(vars)
        # shapes that refer to parameter values (views of a parameter list) are given as callables
        if callable(c.result) and not isinstance(c.result, V.Shape):
            c = _resolved(c, vars)
            eng.unit = c
        st = State(vars)
        # defaults for parameters the contract does not mention
        bound = eng.bind_args(info.node, [], dict(vars), st=st)
        for p, v in bound.items():
            st.set_local(p, v)
        for g, gsh in c.ghost_params.items():
            gv = V.fresh(gsh, "g_" + g)
            st.set_local(g, gv)
            ctx.param_vals[g] = gv
        st.set_local("_warnings", V.vint(0))
        from .quant import deep_wf
        for p, v in list(vars.items()) + [(g, st.lookup(g)) for g in c.ghost_params]:
            if not isinstance(v.shape, ConcS):
                st.pc.append(deep_wf(eng, v))
        mod = info.module
        env0 = dict(st.levels[st.cur].vars)
        for name, text in c.requires:
            st.pc.append(eng.truth(eng.spec_eval(text, env0, st, mod, c), st))
        if not feasible(ctx.all_axioms() + st.pc, 10000):
            res.status = "error"
            res.reason = "vacuous: precondition unsatisfiable"
            return res
        if c.ghost_init:
            for s in ast.parse(c.ghost_init).body:
                eng.spec_mode += 1
                try:
                    eng.exec_stmt_raw(s, st)
                finally:
                    eng.spec_mode -= 1
        from .stmts import ownership_violations
        bad = ownership_violations(info.node, info.module)
        if bad:
            raise OutOfSubset("ownership: " + "; ".join(bad))
        outs = eng.exec_block(info.node.body, st)
        n_normal = 0
        for o in outs:
            ctx.paths += 1
            if o.kind in ("return", "fall"):
                n_normal += 1
                rv = o.val if (o.kind == "return" and o.val is not None) else V.VNONE
                env = dict(env0)
                # final values of ghost / owned variables are visible to postconditions
                for name, val in o.st.levels[st.cur].vars.items():
                    if name.startswith("g_") or name == "_warnings":
                        env[name] = val
                from .contract import MapOf
                if isinstance(c.result, MapOf):
                    from .objects import PyMap
                    if not (isinstance(rv.shape, ConcS) and isinstance(rv.d, PyMap)):
                        raise BindingLost("result is not a mapping with static keys")
                    m = rv.d.copy()
                    for k, sh in c.result.items():
                        if k not in m.items:
                            if m.default is None:
                                raise BindingLost(f"result mapping lacks key {k!r}")
                            m.items[k] = m.default(k)
                        m.items[k] = V.coerce(m.items[k], sh)
                    m.default = None
                    rv = V.vconc(m)
                elif c.result is not None:
                    try:
                        rv = V.coerce(eng.as_sym(rv), c.result)
                    except V.ShapeError as e:
                        try:
                            rv = eng.narrow(eng.as_sym(rv), c.result, o.st, c, "return")
                        except OutOfSubset:
                            raise BindingLost(f"result shape: {e}")
                env["result"] = rv
                for name, text in c.ensures:
                    if name.startswith("def:"):
                        continue      # definitional: names this contract's own postcondition
                    goal = eng.truth(eng.spec_eval(text, env, o.st, mod, c), o.st)
                    ctx.oblige(f"post/{name}", o.st, goal, kind="post", info={"path": ctx.paths})
                for exc, cond in c.raises.items():
                    cv = eng.truth(eng.spec_eval(cond, env, o.st, mod, c), o.st)
                    ctx.oblige(f"must-raise/{exc}", o.st, z3.Not(cv), kind="exc-missed", info={"path": ctx.paths})
                for i, cond in enumerate(c.must_raise):
                    cv = eng.truth(eng.spec_eval(cond, env, o.st, mod, c), o.st)
                    ctx.oblige(f"must-raise/cond{i}", o.st, z3.Not(cv), kind="exc-missed", info={"path": ctx.paths})
                if c.is_silent:
                    ctx.oblige("post/logs-no-warning", o.st, env["_warnings"].d == 0, kind="post", info={"path": ctx.paths})
            elif o.kind == "raise":
                ec = exc_class(o.exc) if o.exc != "FrozenInstanceError" else AttributeError
                hit = None
                for exc, cond in c.raises.items():
                    if issubclass(ec, exc_class(exc)):
                        hit = (exc, cond)
                        break
                if hit is not None:
                    cv = eng.truth(eng.spec_eval(hit[1], dict(env0), o.st, mod, c), o.st)
                    ctx.oblige(f"raise/{o.exc}/justified", o.st, cv, kind="exc-justified", info={"path": ctx.paths})
                elif any(issubclass(ec, exc_class(e)) for e in c.raise_allowed):
                    e0 = next(e for e in c.raise_allowed if issubclass(ec, exc_class(e)))
                    cv = eng.truth(eng.spec_eval(c.raise_allowed[e0], dict(env0), o.st, mod, c), o.st)
                    ctx.oblige(f"raise/{o.exc}/allowed", o.st, cv, kind="exc-justified", info={"path": ctx.paths})
                elif any(issubclass(ec, exc_class(e)) for e in c.may_raise):
                    pass
                else:
                    ctx.oblige(f"escape/{o.exc}", o.st, z3.BoolVal(False), kind="escape", info={"path": ctx.paths})
            else:
                raise OutOfSubset("break/continue outside loop")
        # binding checks: every sidecar loop spec and ghost anchor must have been used
        for key in c.loops:
            k2 = key if isinstance(key, tuple) else (eng.unit_qualname, key)
            if k2 not in eng.loops_seen:
                raise BindingLost(f"loop spec {key} of {c.name} was never reached/bound")
        for g in c.ghosts:
            if id(g) not in eng.ghost_hits:
                # never executed: fine if the anchor statement still exists in the source
                where = g.where or eng.unit_qualname
                finfo = idx.funcs.get(f"{info.module}:{where}")
                present = False
                if finfo is not None:
                    saved = eng.unit
                    present = any(x is g for x in eng.ghosts_inside(finfo.node.body))
                if not present:
                    raise BindingLost(f"ghost anchor {g.anchor!r} not found in {c.name}")
        if n_normal == 0 and (c.ensures or c.result is not None) and not c.always_raises:
            res.notes.append("no normally returning path")
        res.paths = ctx.paths
    except (OutOfSubset, BindingLost, V.ShapeError) as e:
        res.status = "undecided"
        res.reason = f"{type(e).__name__}: {e}"
        res.seconds = time.time() - t0
        res.assumptions = sorted(ctx.assumptions)
        return res
    except Exception as e:
        # an internal exception while translating CHANGED code is an engine limitation, not a
        # verdict and not a reason to stop the whole check: the unit is undecided (its bounded
        # stand-in runs).  On the unchanged tree every unit translates, and a unit that stops
        # doing so shows as level 'other' against the claimed 'proof'.
        res.status = "undecided"
        res.reason = "engine limitation (internal exception): " + "".join(traceback.format_exception(e))[-700:]
        res.seconds = time.time() - t0
        res.assumptions = sorted(ctx.assumptions)
        return res
    axioms = ctx.all_axioms()
    res._ctx = ctx
    for ob in ctx.obligations:
        if discharge_now:
            discharge(ob, axioms, timeout_ms=timeout_ms, seed=seed, first_pass=first_pass)
        d = {"name": ob.name, "kind": ob.kind, "status": ob.status, "backend": ob.backend,
             "seconds": round(ob.seconds, 4), "reason": ob.reason}
        if ob.status == "refuted" and ob.model is not None:
            try:
                d["model"] = {p: model_value(ob.model, v) for p, v in ctx.param_vals.items()
                              if not isinstance(v.shape, ConcS)}
            except Exception as e:
                d["model"] = {"error": repr(e)}
        res.obligations.append(d)
    res.assumptions = sorted(ctx.assumptions)
    res.callees = sorted(ctx.callees)
    res.notes.extend(ctx.notes)
    res.seconds = time.time() - t0
    res._ctx = ctx
    return res


def refute_finite(reg, idx, c, names, scope=3, timeout_ms=60000, seed=0, max_obs=None):
    """Finite-instantiation refutation search for the named obligations of unit c: the unit is
    re-executed with every index quantifier expanded over the window -1..scope; the queries are
    quantifier free, so `sat` yields a concrete model.  Returns {name: obligation dict}."""
    r = verify_unit(reg, idx, c, discharge_now=False, finite=scope)
    out = {}
    if r.status != "ok":
        return out
    ctx = r._ctx
    axioms = ctx.all_axioms() + list(ctx.finite_assumptions)
    for ob in ctx.obligations:
        if ob.name not in names or ob.name in out:
            continue
        if max_obs is not None:
            if max_obs <= 0:
                break
            max_obs -= 1
        t0 = time.time()
        # the instantiated queries are quantifier-free but large; whether z3 finds the model in
        # time depends on the seed, so a small portfolio of seeds shares the budget
        rr = z3.unknown
        for cfg in ("default", "tactic", "seeded"):
            if cfg == "tactic":
                s = z3.Then("simplify", "solve-eqs", "smt").solver()
            else:
                s = z3.Solver()
            s.set("timeout", max(1500, timeout_ms // 3))
            if cfg == "seeded":
                s.set("random_seed", seed + 1)
            for a in axioms:
                s.add(a)
            for p in ob.pc:
                s.add(p)
            s.add(z3.Not(ob.goal))
            rr = s.check()
            if rr != z3.unknown:
                break
        if rr == z3.sat:
            m = s.model()
            try:
                model = {p: model_value(m, v) for p, v in ctx.param_vals.items() if not isinstance(v.shape, ConcS)}
            except Exception as e:
                model = {"error": repr(e)}
            out[ob.name] = {"name": ob.name, "kind": ob.kind, "status": "refuted", "backend": "z3-finite",
                            "seconds": round(time.time() - t0, 4),
                            "reason": f"finite instantiation (scope {scope}): sat", "model": model}
    return out


def decide_unit(reg, idx, c, timeout_ms=None, seed=0, scope=3):
    """verify_unit in two passes with the refutation search in between: (1) the cheap solver
    stages; (2) for what they leave open, a short finite-instantiation refutation search (a false
    obligation is usually refuted here in seconds, instead of exhausting every proof stage first);
    (3) the long proof stages for the rest; (4) the full refutation search for what is still open."""
    r = verify_unit(reg, idx, c, timeout_ms=timeout_ms, seed=seed, first_pass=True)
    if r.status != "ok":
        return r
    ctx = r._ctx
    axioms = ctx.all_axioms()
    pairs = list(zip(ctx.obligations, r.obligations))

    def refresh(ob, d):
        d.update(status=ob.status, backend=ob.backend, seconds=round(ob.seconds, 4), reason=ob.reason)
        if ob.status == "refuted" and ob.model is not None:
            try:
                d["model"] = {p: model_value(ob.model, v) for p, v in ctx.param_vals.items() if not isinstance(v.shape, ConcS)}
            except Exception as e:
                d["model"] = {"error": repr(e)}

    def apply_found(found):
        for ob, d in pairs:
            if d["status"] in ("pending", "undecided") and d["name"] in found:
                f = found[d["name"]]
                ob.status = "refuted"
                d.update(status="refuted", backend=f["backend"], reason=(d.get("reason") or "") + "; " + f["reason"], model=f["model"])
                d["seconds"] = round(d["seconds"] + f["seconds"], 4)
    pending = {d["name"] for _, d in pairs if d["status"] == "pending"}
    if pending:
        try:
            apply_found(refute_finite(reg, idx, c, pending, scope=scope, timeout_ms=6000, seed=seed, max_obs=6))
        except Exception as e:
            r.notes.append("finite refutation search failed: " + repr(e)[:200])
    for ob, d in pairs:
        if d["status"] == "pending":
            discharge(ob, axioms, timeout_ms=timeout_ms, seed=seed)
            refresh(ob, d)
    und = {d["name"] for _, d in pairs if d["status"] == "undecided"}
    if und:
        try:
            apply_found(refute_finite(reg, idx, c, und, scope=scope, seed=seed, timeout_ms=max(20000, timeout_ms or 20000)))
        except Exception as e:
            r.notes.append("finite refutation search failed: " + repr(e)[:200])
    return r
