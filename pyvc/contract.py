"""Sidecar contract data structures (the DSL used by /verif/contracts/*.py)."""
from __future__ import annotations

from collections import OrderedDict


class Conc:
    """A parameter bound to a concrete live object (cls, event_type, a kind tuple ...).
    `path` is evaluated in the live package: 'chartparse.sync:BPMEvent' or a python expression
    over live modules given as a callable."""

    def __init__(self, getter, label=None):
        self.getter = getter
        self.label = label or getattr(getter, "__name__", "conc")

    def get(self):
        return self.getter()


class MapOf:
    """Result shape of a function returning a mapping with statically known (live object) keys,
    e.g. ParsedDataMap: keys() -> list of live objects, shapes aligned with it."""

    def __init__(self, keys_getter, shapes):
        self.keys_getter = keys_getter
        self.shapes = list(shapes)

    def items(self):
        return list(zip(self.keys_getter(), self.shapes))


class LoopSpec:
    def __init__(self, invariants=(), decreases=None, ghost_locals=None):
        self.invariants = [(n, e) for n, e in invariants]
        self.decreases = decreases
        self.ghost_locals = ghost_locals or {}


class Ghost:
    """Ghost statements executed after (or before) the real statement whose unparsed text equals
    `anchor` inside function `where` (qualname; None = the unit's own function)."""

    def __init__(self, anchor, code, where=None, before=False):
        self.anchor = anchor
        self.code = code
        self.where = where
        self.before = before
        self._norm = None

    def anchor_norm(self):
        if self._norm is None:
            import ast
            self._norm = ast.unparse(ast.parse(self.anchor).body[0])
        return self._norm


class Contract:
    def __init__(self, key, *, inst=None, params, result=None, requires=(), ensures=(),
                 raises=None, may_raise=(), defines=None, loops=None, ghosts=(), locals=None,
                 ghost_init=None, trusted=False, inline=False, note="", props=(),
                 ghost_params=None, result_name="result", lemmas=(), pure=True,
                 must_raise=None, logs=None, map_keys=None, raise_allowed=None, ghost_results=None, call_site=True, silent=None, mode=None, callee_modes=None, callee_ensures=None, clause_props=None):
        self.key = key
        self.inst = inst
        self.params = OrderedDict(params)
        self.result = result
        self.requires = [r if isinstance(r, tuple) else (f"pre{i}", r) for i, r in enumerate(requires)]
        self.ensures = [e if isinstance(e, tuple) else (f"post{i}", e) for i, e in enumerate(ensures)]
        # raises: exc name -> condition text: "raises E  <=>  cond" (two-sided)
        self.raises = OrderedDict(raises or {})
        # may_raise: exc names that may escape with no characterisation of when
        self.may_raise = list(may_raise)
        # must_raise: conditions under which the call does not return normally (one-sided)
        self.must_raise = list(must_raise or [])
        # raise_allowed: exc name -> condition: 'raises E  ==>  cond' (one-sided)
        self.raise_allowed = OrderedDict(raise_allowed or {})
        self.defines = defines
        self.loops = dict(loops or {})
        self.ghosts = list(ghosts)
        self.locals = dict(locals or {})
        self.ghost_init = ghost_init        # ghost statements run at function entry
        self.ghost_params = OrderedDict(ghost_params or {})
        self.trusted = trusted              # assumed, never verified (library-like)
        self.inline = inline
        self.note = note
        self.props = list(props)
        self.lemmas = list(lemmas)
        self.pure = pure
        self.logs = logs
        self.map_keys = dict(map_keys or {})
        self.always_raises = False
        self.ghost_results = OrderedDict(ghost_results or {})
        self.call_site = call_site    # False: verified only, never used at call sites
        # silent: the function logs no warning (default unless a clause mentions _warnings)
        self.silent = silent
        # mode 'safety': weak-precondition instance used for the escape analysis (C18); units verified in
        # safety mode resolve their callees to safety instances where one exists
        self.mode = mode
        self.callee_modes = dict(callee_modes or {})
        # callee key -> prefixes of the callee's ensures names that this unit imports (fewer
        # hypotheses: sound; keeps large callers' VCs small).  Absent: all.
        self.callee_ensures = dict(callee_ensures or {})
        # clause_props: prefix of an ensures-clause name -> the properties whose statement that clause
        # carries.  A unit tagged with several properties proves clauses that belong to different
        # statements (NoteEvent.from_parsed_data: lanes C02, sustain C03, hopo C04, star power C05 ...);
        # a refuted postcondition clause is a violation only of the properties it is mapped to (a
        # clause without a mapping belongs to every property of the unit).  Obligations that are not
        # postcondition clauses (escapes, call preconditions, loop invariants, hints) are never
        # attributed: they stay relevant to every property of the unit.
        self.clause_props = dict(clause_props or {})
        self.native_oracle = None     # see contracts/oracles.py (bounded stand-in only)
        self.oracle_order = None

    @property
    def is_silent(self):
        if self.silent is not None:
            return self.silent
        return not any("_warnings" in t for _, t in self.ensures)

    def clause_relevant(self, clause, prop):
        """Is the ensures clause `clause` part of property `prop`'s statement?  (longest prefix wins)"""
        if not prop or not self.clause_props:
            return True
        best = None
        for pre in self.clause_props:
            if clause.startswith(pre) and (best is None or len(pre) > len(best)):
                best = pre
        return best is None or prop in self.clause_props[best]

    @property
    def name(self):
        return self.key + (f"[{self.inst}]" if self.inst else "")

    def conc_bindings(self):
        return {k: v for k, v in self.params.items() if isinstance(v, Conc)}


class Registry:
    def __init__(self):
        self.contracts: dict[str, list[Contract]] = {}
        self.class_shapes = {}      # class key -> Shape
        self.spec_funcs = {}        # name -> callable(ctx, *vals) -> Val
        self.lemmas = []
        self.modeled_classes = {}
        self.rx_facts = {}          # pattern text -> [(group, kind, *args)]
        self.inline_ok = set()      # repo function keys that may be inlined without a contract

    def add(self, c: Contract):
        self.contracts.setdefault(c.key, []).append(c)
        return c

    def all(self):
        return [c for cs in self.contracts.values() for c in cs]

    def by_name(self, name):
        for c in self.all():
            if c.name == name:
                return c
        raise KeyError(name)

    def lookup(self, key, conc_args: dict, args=None, mode=None):
        """Contract instance for a call of `key` whose concrete arguments are conc_args
        (param name -> live object)."""
        cands = self.contracts.get(key, [])
        if mode == "safety" and any(c.mode == "safety" for c in cands):
            cands = [c for c in cands if c.mode == "safety"]
        elif any(c.mode != "safety" for c in cands):
            cands = [c for c in cands if c.mode != "safety"]
        # (a function that only has safety instances - the renderers - is used through them)
        best = None
        for c in cands:
            ok = c.call_site
            for p, b in c.conc_bindings().items():
                if p in conc_args:
                    want, got = b.get(), conc_args[p]
                    from .objects import SymbolicFile
                    same = got is want or (isinstance(want, SymbolicFile) and isinstance(got, SymbolicFile)) or (isinstance(want, tuple) and isinstance(got, tuple) and len(got) == len(want)
                                           and all(x is y for x, y in zip(got, want)))
                    if not same:
                        ok = False
                        break
            if ok and args is not None:
                from . import values as V
                for p, sh in c.params.items():
                    if isinstance(sh, Conc) or p not in args or isinstance(args[p].shape, V.ConcS):
                        continue
                    a = args[p].shape
                    if a == sh or isinstance(a, (V.UnionS, V.OptS)):
                        continue
                    try:
                        V.coerce(args[p], sh)
                    except Exception:
                        ok = False
                        break
            if ok:
                if best is None or len(c.conc_bindings()) > len(best.conc_bindings()):
                    best = c
        return best
