"""pyvc: symbolic executor / verification-condition generator over the real chartparse AST.

Subset and semantics: DESIGN.md section 3.  Anything not understood raises OutOfSubset and the
unit is reported undecided (never silently skipped, never a violation).
"""
from __future__ import annotations

import ast
import builtins
import collections
import dataclasses
import datetime
import functools
import itertools
import logging
import operator
import re
import typing

import z3

from . import values as V
from .values import (Val, INT, BOOL, REAL, STR, TD, NONE, CONC, IntS, BoolS, RealS, StrS, TdS,
                     NoneS, OptS, TupS, RecS, SeqS, EnumS, UnionS, MapS, DictS, ConcS, VNONE)
from .objects import (Closure, LocalClass, PyMap, Obj, ExcInst, MatchObj, BoundMethod,
                      BuiltinMethod, GenExp, RangeObj, EnumerateObj, FilterObj, IsliceObj,
                      ItemsObj, RxSym, PYINT, DECOK, PYPOW, SymbolicFile, SuperProxy, KeyVal)
from .state import State, Env, VCtx, OutOfSubset, BindingLost
from .solve import feasible
from .source import key_of_function, class_key, live_module
from . import floats
from . import quant as Q

EXC_BUILTINS = {n: getattr(builtins, n) for n in dir(builtins)
                if isinstance(getattr(builtins, n), type) and issubclass(getattr(builtins, n), BaseException)}


def exc_class(name):
    if name in EXC_BUILTINS:
        return EXC_BUILTINS[name]
    ex = live_module("chartparse.exceptions")
    if hasattr(ex, name):
        return getattr(ex, name)
    raise OutOfSubset(f"unknown exception class {name}")


def exc_name(cls):
    return cls.__name__


class Outcome:
    __slots__ = ("kind", "st", "val", "exc")

    def __init__(self, kind, st, val=None, exc=None):
        self.kind = kind      # fall | return | raise | break | continue
        self.st = st
        self.val = val
        self.exc = exc        # exception class name for raise


class FuncCtx:
    def __init__(self, module, qualname):
        self.module = module
        self.qualname = qualname
        self.base_line = 0
        self.loops = {}


class Engine:
    def __init__(self, registry, index, ctx: VCtx, unit):
        self.reg = registry
        self.idx = index
        self.ctx = ctx
        self.unit = unit                 # Contract being verified
        self.side = []                   # pending exceptional outcomes
        self.spec_mode = 0
        self.fstack = []                 # FuncCtx stack
        self.inline_depth = 0
        self.unit_qualname = unit.key.split(":")[1] if unit is not None else None
        self.ghost_hits = set()
        self.loops_seen = set()
        self.loop_bodies_reached = set()
        self.finite = None

    # ------------------------------------------------------------------ helpers
    @property
    def fctx(self):
        return self.fstack[-1]

    def is_feasible(self, st, extra=None):
        return feasible(self.ctx.all_axioms() + st.full_pc(extra))

    def raise_side(self, st: State, exc: str, cond):
        """Fork: under `cond` the current expression raises `exc`; the normal path continues
        with not cond."""
        if self.spec_mode:
            return
        if z3.is_false(z3.simplify(cond)):
            return
        f = st.copy()
        f.pc = f.full_pc(cond)
        f.guards = []
        if self.is_feasible(f):
            self.side.append(Outcome("raise", f, exc=exc))
        st.assume(z3.Not(cond))

    def lift(self, obj) -> Val:
        """Ground python object -> Val (symbolic constant where possible)."""
        if isinstance(obj, Val):
            return obj
        if isinstance(obj, KeyVal):
            return obj.val
        if obj is None:
            return VNONE
        if isinstance(obj, bool):
            return V.vbool(obj)
        if isinstance(obj, int):
            return V.vint(obj)
        if isinstance(obj, float):
            return V.vreal(obj)
        if isinstance(obj, str):
            return V.vstr(obj)
        if isinstance(obj, datetime.timedelta):
            return V.vtd((obj.days * 86400 + obj.seconds) * 10**6 + obj.microseconds)
        import enum
        if isinstance(obj, enum.Enum):
            sh = self.reg.class_shapes.get(class_key(type(obj)))
            if isinstance(sh, EnumS):
                return V.const_of_py(obj, sh)
        if isinstance(obj, tuple) and obj and all(
                isinstance(o, (bool, int, float, str, type(None), enum.Enum)) for o in obj):
            try:
                return V.vtup([self.lift(o) for o in obj])
            except Exception:
                pass
        return V.vconc(obj)

    def shape_of_class(self, cls):
        sh = self.reg.class_shapes.get(class_key(cls))
        if sh is None:
            raise OutOfSubset(f"no shape declared for class {class_key(cls)}")
        return sh

    # ------------------------------------------------------------------ truth / equality
    def truth(self, v: Val, st: State):
        s = v.shape
        if isinstance(s, BoolS):
            return v.d
        if isinstance(s, IntS):
            return v.d != 0
        if isinstance(s, RealS):
            return v.d != 0
        if isinstance(s, StrS):
            return z3.Length(v.d) > 0
        if isinstance(s, NoneS):
            return z3.BoolVal(False)
        if isinstance(s, SeqS):
            return V.seq_len(v) > 0
        if isinstance(s, TupS):
            return z3.BoolVal(len(v.d) > 0)
        if isinstance(s, OptS):
            return z3.And(z3.Not(v.d[0]), self.truth(v.d[1], st))
        if isinstance(s, RecS):
            # instances are truthy unless the class defines __len__/__bool__
            cls = self.live_class(s.key)
            if hasattr(cls, "__len__") or hasattr(cls, "__bool__"):
                if hasattr(cls, "__len__") and "events" in s.fields:
                    return V.seq_len(v.d["events"]) > 0
                raise OutOfSubset(f"truth value of {s.key} with __len__/__bool__")
            return z3.BoolVal(True)
        if isinstance(s, EnumS):
            return z3.BoolVal(True)
        if isinstance(s, TdS):
            return v.d != 0
        if isinstance(s, DictS):
            return v.d[1].d[1] > 0
        if isinstance(s, UnionS):
            return z3.Or([z3.And(v.d[0] == i, self.truth(a, st)) for i, a in enumerate(v.d[1])])
        if isinstance(s, ConcS):
            o = v.d
            if isinstance(o, MatchObj):
                return z3.Not(o.isnone)
            if isinstance(o, PyMap):
                if o.default is None:
                    return z3.BoolVal(len(o.items) > 0)
            if isinstance(o, (Closure, Obj, LocalClass, type, BoundMethod, BuiltinMethod)):
                return z3.BoolVal(True)
            if isinstance(o, (list, tuple, dict, str, int)):
                return z3.BoolVal(bool(o))
            if callable(o):
                return z3.BoolVal(True)
        raise OutOfSubset(f"truth value of {s}")

    def live_class(self, key):
        mod, q = key.split(":")
        o = live_module(mod)
        for part in q.split("."):
            o = getattr(o, part)
        return o

    def py_eq(self, a: Val, b: Val):
        sa, sb = a.shape, b.shape
        if isinstance(sa, ConcS) or isinstance(sb, ConcS):
            if isinstance(sa, ConcS) and isinstance(sb, ConcS):
                try:
                    return z3.BoolVal(bool(a.d == b.d))
                except Exception:
                    pass
            la, lb = self.lift(a.d) if isinstance(sa, ConcS) else a, self.lift(b.d) if isinstance(sb, ConcS) else b
            if isinstance(la.shape, ConcS) or isinstance(lb.shape, ConcS):
                raise OutOfSubset(f"== on concrete object {a.d!r} / {b.d!r}")
            return self.py_eq(la, lb)
        if isinstance(sa, NoneS) and isinstance(sb, NoneS):
            return z3.BoolVal(True)
        if isinstance(sa, OptS) or isinstance(sb, OptS):
            if isinstance(sa, NoneS):
                return b.d[0]
            if isinstance(sb, NoneS):
                return a.d[0]
            an, ai = (a.d[0], a.d[1]) if isinstance(sa, OptS) else (z3.BoolVal(False), a)
            bn, bi = (b.d[0], b.d[1]) if isinstance(sb, OptS) else (z3.BoolVal(False), b)
            return z3.Or(z3.And(an, bn), z3.And(z3.Not(an), z3.Not(bn), self.py_eq(ai, bi)))
        if isinstance(sa, NoneS) or isinstance(sb, NoneS):
            return z3.BoolVal(False)
        if isinstance(sa, UnionS) or isinstance(sb, UnionS):
            if isinstance(sa, UnionS) and isinstance(sb, UnionS):
                if sa != sb:
                    raise OutOfSubset("== between different unions")
                return z3.And(a.d[0] == b.d[0],
                              *[z3.Implies(a.d[0] == i, self.py_eq(x, y))
                                for i, (x, y) in enumerate(zip(a.d[1], b.d[1]))])
            u, o = (a, b) if isinstance(sa, UnionS) else (b, a)
            cl = []
            for i, alt in enumerate(u.d[1]):
                try:
                    e = self.py_eq(alt, o)
                except OutOfSubset:
                    e = z3.BoolVal(False)
                cl.append(z3.And(u.d[0] == i, e))
            return z3.Or(cl)
        num = (IntS, RealS, BoolS)
        if isinstance(sa, num) and isinstance(sb, num):
            return self._num(a) == self._num(b) if (isinstance(sa, RealS) or isinstance(sb, RealS)) \
                else self._int(a) == self._int(b)
        if isinstance(sa, StrS) and isinstance(sb, StrS):
            return a.d == b.d
        if isinstance(sa, TdS) and isinstance(sb, TdS):
            return a.d == b.d
        if isinstance(sa, EnumS) and isinstance(sb, EnumS):
            if sa.key != sb.key:
                return z3.BoolVal(False)
            return self.py_eq(a.d, b.d)
        if isinstance(sa, TupS) and isinstance(sb, TupS):
            if len(a.d) != len(b.d):
                return z3.BoolVal(False)
            return z3.And([self.py_eq(x, y) for x, y in zip(a.d, b.d)] or [z3.BoolVal(True)])
        if isinstance(sa, RecS) and isinstance(sb, RecS):
            if sa.key != sb.key:
                return z3.BoolVal(False)
            return z3.And([self.py_eq(a.d[k], b.d[k]) for k in sa.fields] or [z3.BoolVal(True)])
        if isinstance(sa, SeqS) and isinstance(sb, SeqS):
            return z3.And(a.d[1] == b.d[1], Q.forall(
                self, z3.IntVal(0), a.d[1], lambda k: self.py_eq(V.seq_select(a, k), V.seq_select(b, k)), "eqk"))
        if isinstance(sa, MapS) and isinstance(sb, MapS) and sa == sb:
            k = z3.Const(V.fresh_name("mk"), sa.key.sorts()[0])
            va = V.from_leaves(sa.val, [z3.Select(x, k) for x in a.d[1]])
            vb = V.from_leaves(sb.val, [z3.Select(x, k) for x in b.d[1]])
            return z3.ForAll([k], z3.And(z3.Select(a.d[0], k) == z3.Select(b.d[0], k),
                                         z3.Implies(z3.Select(a.d[0], k), self.py_eq(va, vb))))
        if type(sa) is not type(sb):
            return z3.BoolVal(False)
        raise OutOfSubset(f"== on {sa} / {sb}")

    def _int(self, v: Val):
        if isinstance(v.shape, OptS) and self.spec_mode:
            v = v.d[1]
        if isinstance(v.shape, BoolS):
            return z3.If(v.d, 1, 0)
        if isinstance(v.shape, IntS):
            return v.d
        raise OutOfSubset(f"expected int, got {v.shape}")

    def _num(self, v: Val):
        if isinstance(v.shape, OptS) and self.spec_mode:
            v = v.d[1]
        if isinstance(v.shape, RealS):
            return v.d
        return z3.ToReal(self._int(v))

    def as_sym(self, v: Val) -> Val:
        if isinstance(v.shape, ConcS):
            if isinstance(v.d, IsliceObj):
                return self.islice_to_seq(v.d)
            return self.lift(v.d)
        if isinstance(v.shape, V.ViewS):
            return V.view_to_seq(v)
        return v

    # ------------------------------------------------------------------ expressions
    def eval(self, node, st: State) -> Val:
        m = getattr(self, "e_" + node.__class__.__name__, None)
        if m is None:
            raise OutOfSubset(f"expression {node.__class__.__name__} at line {getattr(node, 'lineno', '?')}")
        return m(node, st)

    def e_Constant(self, node, st):
        if node.value is Ellipsis:
            return V.vconc(Ellipsis)
        return self.lift(node.value)

    def e_Name(self, node, st):
        v = st.lookup(node.id)
        if v is not None:
            return v
        return self.resolve_global(node.id)

    def resolve_global(self, name):
        if self.spec_mode and name in self.reg.spec_funcs:
            return V.vconc(SpecFn(name, self.reg.spec_funcs[name]))
        mod = live_module(self.fctx.module)
        if hasattr(mod, name):
            return self.lift(getattr(mod, name))
        if hasattr(builtins, name):
            return V.vconc(getattr(builtins, name))
        if name in self.reg.spec_funcs:
            return V.vconc(SpecFn(name, self.reg.spec_funcs[name]))
        raise BindingLost(f"name {name!r} not bound in {self.fctx.module}:{self.fctx.qualname}")

    def e_Tuple(self, node, st):
        items = [self.eval(e, st) for e in node.elts]
        if items and all(isinstance(i.shape, ConcS) for i in items):
            return V.vconc(tuple(i.d for i in items))
        return V.vtup([self.as_sym(i) if not isinstance(self.as_sym(i).shape, ConcS) else i for i in items])

    def e_List(self, node, st):
        items = [self.eval(e, st) for e in node.elts]
        if not items:
            return Val(SeqS(None), ([], z3.IntVal(0)))
        items = [self.as_sym(i) for i in items]
        sh = items[0].shape
        for i in items[1:]:
            sh = V.join_shape(sh, i.shape)
        return V.seq_of([V.coerce(i, sh) for i in items], sh)

    def e_Dict(self, node, st):
        out = PyMap()
        for kn, vn in zip(node.keys, node.values):
            if kn is None:
                raise OutOfSubset("dict literal with ** unpacking")
            kv = self.eval(kn, st)
            if isinstance(kv.shape, StrS) and z3.is_string_value(kv.d):
                key = kv.d.as_string()
            elif isinstance(kv.shape, IntS) and z3.is_int_value(kv.d):
                key = kv.d.as_long()
            elif isinstance(kv.shape, ConcS):
                key = kv.d
            else:
                key = KeyVal(kv)
            out.items[key] = self.eval(vn, st)
        return V.vconc(out)

    def e_JoinedStr(self, node, st):
        for part in node.values:
            if isinstance(part, ast.FormattedValue):
                v = self.eval(part.value, st)
                self.render_check(v, st, part.conversion)
                if part.format_spec is not None:
                    self.format_spec_check(v, part, st)
        self.ctx.assumptions.add("str()/format() of int, float, str, enum, timedelta, list and dict of such never raises")
        return V.fresh(STR, "fstr")

    _FORMAT_SAMPLES = {IntS: (0, 7, -5, 10**20), RealS: (0.0, 0.5, -1e300, 3.0, 120.0), StrS: ("", "abc"),
                       BoolS: (True, False), TdS: (datetime.timedelta(0), datetime.timedelta(seconds=1, microseconds=5))}

    def format_spec_check(self, v: Val, part, st):
        """`{x:spec}`: whether format(x, spec) raises depends on the type of x and the spec, not on
        the value (assumed; true of the d/f/s/fill/width specs).  Decided by formatting sample
        values of the static type with the real format()."""
        if self.spec_mode:
            return
        if not all(isinstance(p, ast.Constant) for p in part.format_spec.values):
            raise OutOfSubset("computed format spec")
        spec = "".join(str(p.value) for p in part.format_spec.values)
        if spec == "":
            return
        if part.conversion != -1:
            samples = ("", "abc")
        else:
            samples = None
            for k, sm in self._FORMAT_SAMPLES.items():
                if isinstance(v.shape, k):
                    samples = sm
            if samples is None:
                # any other value: object.__format__ rejects a non-empty spec (enum members, None,
                # dataclass instances without __format__, lists, tuples)
                self.ctx.oblige("format-spec-accepted", st, z3.BoolVal(False), kind="safety")
                return
        ok = True
        for x in samples:
            try:
                format(x, spec)
            except Exception:
                ok = False
        self.ctx.assumptions.add("format(x, spec) raises for a type/spec combination or for none of its values (checked on sample values with the real format())")
        self.ctx.oblige("format-spec-accepted", st, z3.BoolVal(ok), kind="safety")

    def render_check(self, v: Val, st, conversion=-1, depth=0):
        """Formatting a value calls its __str__ (or __repr__ with !r or inside a container).  The
        method in effect is read from the live class: one defined in the package is executed
        (inlined, or through its contract); a dataclass-generated __repr__ renders every field
        with repr() (followed recursively); everything else is library rendering (assumed total)."""
        if self.spec_mode:
            return
        if depth > 12:
            raise OutOfSubset("rendering recursion")
        r = ord("r")
        s = v.shape
        if isinstance(s, OptS):
            return self.render_check(v.d[1], st, conversion, depth + 1)
        if isinstance(s, UnionS):
            for alt in v.d[1]:
                self.render_check(alt, st, conversion, depth + 1)
            return
        if isinstance(s, TupS):
            for x in v.d:
                self.render_check(x, st, r, depth + 1)
            return
        if isinstance(s, SeqS):
            if isinstance(s.elem, (RecS, SeqS, OptS, UnionS, TupS, MapS)):
                k = z3.Int(V.fresh_name("ri"))
                st.pc.append(z3.And(k >= 0, k < v.d[1]))
                e = V.seq_select(v, k)
                st.assume(V.wf(e))
                self.render_check(e, st, r, depth + 1)
            return
        if isinstance(s, (MapS, DictS)):
            mv = v if isinstance(s, MapS) else v.d[0]
            ms = mv.shape
            if isinstance(ms.val, (RecS, SeqS, OptS, UnionS, TupS, MapS)):
                kv = V.fresh(ms.key, "rk")
                st.assume(V.wf(kv))
                k = V.leaves(kv)[0]
                st.pc.append(z3.Select(mv.d[0], k))
                val = V.from_leaves(ms.val, [z3.Select(a_, k) for a_ in mv.d[1]])
                st.assume(V.wf(val))
                self.render_check(val, st, r, depth + 1)
            return
        if isinstance(s, EnumS):
            cls = self.live_class(s.key)
            for name in ("__str__", "__repr__", "__format__"):
                m = getattr(cls, name, None)
                if (getattr(m, "__module__", "") or "").startswith("chartparse"):
                    raise OutOfSubset(f"package-defined {name} on enum {s.key}")
            return
        if not isinstance(s, RecS):
            return
        cls = self.live_class(s.key)
        name = "__repr__" if conversion == r else "__str__"
        m = getattr(cls, name)
        if m is object.__str__:
            m = getattr(cls, "__repr__")
        if m is object.__repr__:
            return
        gen = getattr(m, "__wrapped__", m)       # reprlib.recursive_repr wrapper around the generated function
        code = getattr(gen, "__code__", None)
        if code is not None and code.co_filename == "<string>" and dataclasses.is_dataclass(cls):
            # dataclasses-generated __repr__: repr() of every field with repr=True
            self.ctx.assumptions.add("the dataclasses-generated __repr__ renders each repr field with repr() and raises only if one of those does")
            for f in dataclasses.fields(cls):
                if f.repr and f.name in v.d:
                    self.render_check(v.d[f.name], st, r, depth + 1)
            return
        if (getattr(m, "__module__", "") or "").startswith("chartparse"):
            self.call_repo(m, [v], {}, st)
            return
        raise OutOfSubset(f"{name} of {s.key} is neither package-defined, dataclass-generated nor object's")

    def e_Lambda(self, node, st):
        return V.vconc(Closure(node, st.cur, self.fctx.qualname + ".<locals>.<lambda>", self.fctx.module))

    def e_GeneratorExp(self, node, st):
        return V.vconc(GenExp(node, st.cur))

    def e_DictComp(self, node, st):
        """A comprehension that mentions no local variable is a closed expression of the live
        package: it is evaluated by the real interpreter (ground fact), e.g. the header table
        {d.value + i.value: (i, d) for i, d in itertools.product(Instrument, Difficulty)}."""
        targets = set()
        for g in node.generators:
            for n in ast.walk(g.target):
                if isinstance(n, ast.Name):
                    targets.add(n.id)
        free = {n.id for n in ast.walk(node) if isinstance(n, ast.Name) and isinstance(n.ctx, ast.Load)} - targets
        if any(st.lookup(nm) is not None for nm in free):
            return self.dictcomp_static(node, st)
        mod = live_module(self.fctx.module)
        try:
            val = eval(compile(ast.Expression(node), "<closed-comprehension>", "eval"), dict(mod.__dict__))
        except Exception as e:
            raise OutOfSubset(f"closed comprehension cannot be evaluated: {e!r}")
        self.ctx.notes.append(f"ground: closed comprehension at line {node.lineno} evaluated by the live interpreter ({len(val)} entries)")
        return V.vconc(val)

    def dictcomp_static(self, node, st):
        if len(node.generators) != 1:
            raise OutOfSubset("dict comprehension form")
        g = node.generators[0]
        sub = st.sub({}, st.cur)
        itv = self.eval(g.iter, sub)
        if not (isinstance(itv.shape, ConcS) and isinstance(itv.d, ItemsObj) and isinstance(itv.d.mapval.shape, ConcS)
                and isinstance(itv.d.mapval.d, PyMap)):
            raise OutOfSubset("dict comprehension over a symbolic iterable")
        out = PyMap()
        for k, val in itv.d.mapval.d.items.items():
            # bind k, v
            if isinstance(g.target, ast.Tuple) and len(g.target.elts) == 2:
                sub.set_local(g.target.elts[0].id, V.vstr(k) if isinstance(k, str) else V.vconc(k))
                sub.set_local(g.target.elts[1].id, val)
            else:
                raise OutOfSubset("dict comprehension target")
            ok = True
            for c in g.ifs:
                cv = z3.simplify(self.truth(self.eval(c, sub), sub))
                if z3.is_false(cv):
                    ok = False
                elif not z3.is_true(cv):
                    raise OutOfSubset("dict comprehension with symbolic filter")
            if ok:
                kv = self.eval(node.key, sub)
                key = kv.d.as_string() if isinstance(kv.shape, StrS) and z3.is_string_value(kv.d) else (kv.d if isinstance(kv.shape, ConcS) else None)
                if key is None:
                    raise OutOfSubset("dict comprehension with symbolic key")
                out.items[key] = self.eval(node.value, sub)
        st.pc = sub.pc
        return V.vconc(out)

    def e_ListComp(self, node, st):
        if len(node.generators) != 1 or node.generators[0].ifs or node.generators[0].is_async:
            raise OutOfSubset("list comprehension form")
        gen = node.generators[0]
        sub = st.sub({}, st.cur)
        itv = self.eval(gen.iter, sub)
        items = self.static_items(itv, sub)
        if items is None:
            raise OutOfSubset("list comprehension over a symbolic-length iterable")
        out = []
        for item in items:
            self.bind_target(gen.target, item, sub)
            out.append(self.as_sym(self.eval(node.elt, sub)))
        st.pc = sub.pc
        if not out:
            return Val(SeqS(None), ([], z3.IntVal(0)))
        sh = out[0].shape
        for o in out[1:]:
            sh = V.join_shape(sh, o.shape)
        return V.seq_of([V.coerce(o, sh) for o in out], sh)

    def e_IfExp(self, node, st):
        c = self.truth(self.eval(node.test, st), st)
        cs = z3.simplify(c)
        if z3.is_true(cs):
            return self.eval(node.body, st)
        if z3.is_false(cs):
            return self.eval(node.orelse, st)
        st.guards.append(c)
        a = self.eval(node.body, st)
        st.guards.pop()
        st.guards.append(z3.Not(c))
        b = self.eval(node.orelse, st)
        st.guards.pop()
        return V.ite(c, self.as_sym(a), self.as_sym(b))

    def e_BoolOp(self, node, st):
        # python returns one of the operands; we only support use as a truth value unless all
        # operands are BOOL
        vals = []
        pushed = 0
        conds = []
        for e in node.values:
            v = self.eval(e, st)
            t = self.truth(v, st)
            vals.append((v, t))
            conds.append(t)
            ts = z3.simplify(t)
            if (z3.is_false(ts) and isinstance(node.op, ast.And)) or (z3.is_true(ts) and isinstance(node.op, ast.Or)):
                break       # short circuit decided statically: the remaining operands are not evaluated
            g = t if isinstance(node.op, ast.And) else z3.Not(t)
            st.guards.append(g)
            pushed += 1
        for _ in range(pushed):
            st.guards.pop()
        res = z3.And(conds) if isinstance(node.op, ast.And) else z3.Or(conds)
        return V.vbool(res)

    def e_UnaryOp(self, node, st):
        v = self.as_sym(self.eval(node.operand, st))
        if isinstance(node.op, ast.Not):
            return V.vbool(z3.Not(self.truth(v, st)))
        if isinstance(node.op, ast.USub):
            if isinstance(v.shape, RealS):
                return V.vreal(-v.d)
            if isinstance(v.shape, TdS):
                return V.vtd(-v.d)
            return V.vint(-self._int(v))
        if isinstance(node.op, ast.UAdd):
            return v
        raise OutOfSubset("unary op")

    def e_Compare(self, node, st):
        left = self.eval(node.left, st)
        conds = []
        for op, rn in zip(node.ops, node.comparators):
            right = self.eval(rn, st)
            conds.append(self.compare(op, left, right, st))
            left = right
        return V.vbool(z3.And(conds) if len(conds) > 1 else conds[0])

    def compare(self, op, a: Val, b: Val, st):
        if isinstance(op, (ast.Is, ast.IsNot)):
            r = self.is_identical(a, b)
            return r if isinstance(op, ast.Is) else z3.Not(r)
        if isinstance(op, (ast.In, ast.NotIn)):
            r = self.contains(b, a, st)
            return r if isinstance(op, ast.In) else z3.Not(r)
        a, b = (self.as_sym(a) if not self._keep_conc(a) else a), (self.as_sym(b) if not self._keep_conc(b) else b)
        if isinstance(op, ast.Eq):
            return self.py_eq(a, b)
        if isinstance(op, ast.NotEq):
            return z3.Not(self.py_eq(a, b))
        # ordering
        if isinstance(a.shape, OptS):
            self.raise_side(st, "TypeError", a.d[0])
            a = a.d[1]
        if isinstance(b.shape, OptS):
            self.raise_side(st, "TypeError", b.d[0])
            b = b.d[1]
        if isinstance(a.shape, EnumS) and isinstance(b.shape, EnumS) and a.shape.key == b.shape.key:
            cls = self.live_class(a.shape.key)
            if "__lt__" in cls.__dict__ and isinstance(a.shape.value_shape, IntS):
                # NoteTrackIndex defines value ordering (read from the live class)
                a, b = a.d, b.d
            else:
                raise OutOfSubset("ordering on enum without __lt__")
        if isinstance(a.shape, TdS) and isinstance(b.shape, TdS):
            x, y = a.d, b.d
        elif isinstance(a.shape, (IntS, BoolS, RealS)) and isinstance(b.shape, (IntS, BoolS, RealS)):
            if isinstance(a.shape, RealS) or isinstance(b.shape, RealS):
                x, y = self._num(a), self._num(b)
            else:
                x, y = self._int(a), self._int(b)
        else:
            raise OutOfSubset(f"ordering on {a.shape} / {b.shape}")
        if isinstance(op, ast.Lt):
            return x < y
        if isinstance(op, ast.LtE):
            return x <= y
        if isinstance(op, ast.Gt):
            return x > y
        if isinstance(op, ast.GtE):
            return x >= y
        raise OutOfSubset("compare op")

    def _keep_conc(self, v):
        return isinstance(v.shape, ConcS) and isinstance(self.lift(v.d).shape, ConcS)

    def is_identical(self, a: Val, b: Val):
        sa, sb = a.shape, b.shape
        if isinstance(sa, ConcS) and isinstance(sb, ConcS):
            return z3.BoolVal(a.d is b.d)
        if isinstance(sb, NoneS) or isinstance(sa, NoneS):
            o = a if isinstance(sb, NoneS) else b
            so = o.shape
            if isinstance(so, NoneS):
                return z3.BoolVal(True)
            if isinstance(so, OptS):
                return o.d[0]
            if isinstance(so, UnionS):
                idx = [i for i, alt in enumerate(so.alts) if isinstance(alt, NoneS)]
                return z3.Or([o.d[0] == i for i in idx]) if idx else z3.BoolVal(False)
            if isinstance(so, ConcS) and isinstance(o.d, MatchObj):
                return o.d.isnone           # the result of Pattern.match: None iff no match
            if isinstance(so, ConcS) and not isinstance(o.d, (type(None),)) and not hasattr(o.d, "isnone"):
                return z3.BoolVal(o.d is None)
            return z3.BoolVal(False)
        if isinstance(sa, EnumS) and isinstance(sb, EnumS):
            return self.py_eq(a, b)
        if isinstance(sa, BoolS) and isinstance(sb, BoolS):
            return a.d == b.d
        raise OutOfSubset(f"'is' on {sa} / {sb}")

    def contains(self, cont: Val, item: Val, st):
        s = cont.shape
        if isinstance(s, ConcS):
            o = cont.d
            if isinstance(o, PyMap):
                if isinstance(item.shape, ConcS):
                    return z3.BoolVal(item.d in o.items)
                it = self.as_sym(item)
                return z3.Or([self.py_eq(self.lift(k), it) for k in o.items] or [z3.BoolVal(False)])
            if isinstance(o, RangeObj):
                it = self.as_sym(item)
                if not isinstance(it.shape, (IntS, BoolS)):
                    return z3.BoolVal(False)
                x = self._int(it)
                return z3.And(o.lo <= x, x < o.hi)       # range(lo, hi), step 1
            if isinstance(o, (list, tuple, dict, set, frozenset)):
                if isinstance(item.shape, ConcS):
                    return z3.BoolVal(item.d in o)
                it = self.as_sym(item)
                return z3.Or([self.py_eq(self.lift(k), it) for k in o] or [z3.BoolVal(False)])
            raise OutOfSubset(f"'in' on {type(o).__name__}")
        item = self.as_sym(item)
        if isinstance(s, TupS):
            return z3.Or([self.py_eq(x, item) for x in cont.d] or [z3.BoolVal(False)])
        if isinstance(s, SeqS):
            return Q.exists(self, z3.IntVal(0), cont.d[1], lambda k: self.py_eq(V.seq_select(cont, k), item), "ink")
        if isinstance(s, MapS):
            return z3.Select(cont.d[0], V.leaves(V.coerce(item, s.key))[0])
        if isinstance(s, DictS):
            return self.contains(cont.d[0], item, st)
        if isinstance(s, OptS) and isinstance(s.inner, SeqS):
            self.raise_side(st, "TypeError", cont.d[0])
            return self.contains(cont.d[1], item, st)
        raise OutOfSubset(f"'in' on {s}")

    # ------------------------------------------------------------------ arithmetic
    def e_BinOp(self, node, st):
        a = self.eval(node.left, st)
        b = self.eval(node.right, st)
        return self.binop(node.op, a, b, st)

    def binop(self, op, a: Val, b: Val, st):
        if isinstance(a.shape, ConcS) and isinstance(b.shape, ConcS):
            la, lb = self.lift(a.d), self.lift(b.d)
            if isinstance(la.shape, ConcS) or isinstance(lb.shape, ConcS):
                fn = {ast.BitOr: operator.or_, ast.Add: operator.add, ast.Mult: operator.mul}.get(type(op))
                if fn is None:
                    raise OutOfSubset("binop on concrete objects")
                return self.lift(fn(a.d, b.d))
        a, b = self.as_sym(a), self.as_sym(b)
        if isinstance(a.shape, OptS):
            self.raise_side(st, "TypeError", a.d[0])
            a = a.d[1]
        if isinstance(b.shape, OptS):
            self.raise_side(st, "TypeError", b.d[0])
            b = b.d[1]
        sa, sb = a.shape, b.shape
        fm = self.ctx.fm
        # list * int   ([0] * 5)
        if isinstance(op, ast.Mult) and isinstance(sa, SeqS) and isinstance(sb, IntS):
            n = V.concrete_int(b.d)
            ln = V.concrete_int(a.d[1])
            if n is None or ln != 1:
                raise OutOfSubset("list * non-constant")
            e = V.seq_select(a, z3.IntVal(0))
            arrs = [z3.K(z3.IntSort(), z3.simplify(l)) for l in V.leaves(e)]
            return Val(sa, (arrs, z3.IntVal(n)))
        if isinstance(op, ast.Add) and isinstance(sa, StrS) and isinstance(sb, StrS):
            return V.vstr(z3.Concat(a.d, b.d))
        if isinstance(sa, TdS) or isinstance(sb, TdS):
            if isinstance(sa, TdS) and isinstance(sb, TdS):
                if isinstance(op, ast.Add):
                    return V.vtd(a.d + b.d)
                if isinstance(op, ast.Sub):
                    return V.vtd(a.d - b.d)
            raise OutOfSubset(f"timedelta op {type(op).__name__} on {sa}/{sb}")
        num = (IntS, BoolS, RealS)
        if not (isinstance(sa, num) and isinstance(sb, num)):
            raise OutOfSubset(f"binop {type(op).__name__} on {sa} / {sb}")
        is_float = isinstance(sa, RealS) or isinstance(sb, RealS)
        if isinstance(op, ast.Div):
            x, y = self._num(a), self._num(b)
            if not self.spec_mode:
                self.raise_side(st, "ZeroDivisionError", y == 0)
            self._int_to_float_guard(a, st)
            self._int_to_float_guard(b, st)
            return self.float_result(x / y, st, "div")
        if is_float:
            x, y = self._num(a), self._num(b)
            self._int_to_float_guard(a, st)
            self._int_to_float_guard(b, st)
            if isinstance(op, ast.Add):
                return self.float_result(x + y, st, "add")
            if isinstance(op, ast.Sub):
                return self.float_result(x - y, st, "sub")
            if isinstance(op, ast.Mult):
                return self.float_result(x * y, st, "mul")
            if isinstance(op, ast.Mod):
                # float remainder with the sign of the divisor: x - y*floor(x/y); fmod is exact,
                # the sign adjustment may round once: RN of the exact value over-approximates both
                if not self.spec_mode:
                    self.raise_side(st, "ZeroDivisionError", y == 0)
                q = z3.ToReal(z3.ToInt(x / y))
                return self.float_result(x - y * q, st, "mod")
            if isinstance(op, ast.FloorDiv):
                if not self.spec_mode:
                    self.raise_side(st, "ZeroDivisionError", y == 0)
                return self.float_result(z3.ToReal(z3.ToInt(x / y)), st, "floordiv")
            raise OutOfSubset(f"float op {type(op).__name__}")
        x, y = self._int(a), self._int(b)
        if isinstance(op, ast.Add):
            return V.vint(x + y)
        if isinstance(op, ast.Sub):
            return V.vint(x - y)
        if isinstance(op, ast.Mult):
            return V.vint(x * y)
        if isinstance(op, ast.FloorDiv):
            self.raise_side(st, "ZeroDivisionError", y == 0)
            return V.vint(z3.If(y > 0, x / y, (-x) / (-y)))
        if isinstance(op, ast.Mod):
            self.raise_side(st, "ZeroDivisionError", y == 0)
            q = z3.If(y > 0, x / y, (-x) / (-y))
            return V.vint(x - q * y)
        if isinstance(op, ast.Pow):
            cx, cy = V.concrete_int(x), V.concrete_int(y)
            if cx is not None and cy is not None and cy >= 0:
                return V.vint(cx ** cy)
            # a ** b with b >= 0 is an int; negative exponents give floats: obligation
            if not self.spec_mode:
                self.ctx.oblige(f"L{self.cur_line}/pow-exponent-nonnegative", st, y >= 0, kind="safety")
            r = PYPOW(x, y)
            if cx == 2:
                for k in range(0, 17):
                    self.ctx.axioms.append(PYPOW(2, k) == 2 ** k)
                self.ctx.axioms.append(z3.Implies(y >= 0, r >= 1))
            return V.vint(r)
        raise OutOfSubset(f"int op {type(op).__name__}")

    cur_line = 0

    def _int_to_float_guard(self, v: Val, st):
        """int -> float conversion is exact only below 2**53 (else it rounds): obligation."""
        if isinstance(v.shape, RealS) or self.spec_mode:
            return
        x = self._int(v)
        c = V.concrete_int(x)
        if c is not None and abs(c) <= floats.TWO53:
            return
        self.ctx.oblige(f"L{self.cur_line}/int-to-float-exact", st,
                        z3.And(x <= floats.TWO53, x >= -floats.TWO53), kind="float-range")

    def float_result(self, exact, st, what):
        if self.spec_mode:
            # contract expressions are mathematical: exact real arithmetic, no rounding
            return V.vreal(exact)
        self.ctx.oblige(f"L{self.cur_line}/float-{what}-in-range", st, floats.in_range(exact),
                        kind="float-range")
        return V.vreal(self.ctx.fm.rn(exact))

    # ------------------------------------------------------------------ attribute / subscript
    def e_Attribute(self, node, st):
        v = self.eval(node.value, st)
        return self.getattr(v, node.attr, st)

    def getattr(self, v: Val, name: str, st) -> Val:
        s = v.shape
        if isinstance(s, RecS):
            if name in v.d:
                return v.d[name]
            cls = self.live_class(s.key)
            if name == "__class__":
                return V.vconc(cls)
            if name == "__dict__":
                # instance dict of a (data)class instance: its fields (cached-property memos are
                # not modelled: they never hold anything but derived values, fxvc obligation)
                return V.vconc(PyMap(items=dict(v.d)))
            return self.class_attr_on_instance(cls, v, name, st)
        if isinstance(s, EnumS):
            if name == "value":
                return V.enum_value(v)
            cls = self.live_class(s.key)
            return self.class_attr_on_instance(cls, v, name, st)
        if isinstance(s, OptS):
            self.raise_side(st, "AttributeError", v.d[0])
            return self.getattr(v.d[1], name, st)
        if isinstance(s, NoneS):
            self.raise_side(st, "AttributeError", z3.BoolVal(True))
            raise DeadPath()
        if isinstance(s, TdS):
            if name == "total_seconds":
                return V.vconc(BuiltinMethod(v, "td.total_seconds"))
            # normalised components: days (floor), seconds in [0, 86400), microseconds in [0, 10**6)
            us = v.d
            if name == "microseconds":
                return V.vint(us % 1000000)
            if name == "seconds":
                return V.vint((us / 1000000) % 86400) if False else V.vint(((us - us % 1000000) / 1000000) % 86400)
            if name == "days":
                secs = (us - us % 1000000) / 1000000
                return V.vint((secs - secs % 86400) / 86400)
            raise OutOfSubset(f"timedelta.{name}")
        if isinstance(s, SeqS):
            if name in ("append",):
                return V.vconc(BuiltinMethod(v, "list." + name))
            raise OutOfSubset(f"list.{name}")
        if isinstance(s, StrS):
            if name in ("format", "splitlines", "join"):
                return V.vconc(BuiltinMethod(v, "str." + name))
            raise OutOfSubset(f"str.{name}")
        if isinstance(s, RealS):
            if name == "is_integer":
                return V.vconc(BuiltinMethod(v, "float.is_integer"))
        if isinstance(s, (MapS, DictS)):
            if name in ("items", "keys", "get", "setdefault"):
                return V.vconc(BuiltinMethod(v, "dict." + name))
        if isinstance(s, ConcS):
            o = v.d
            if isinstance(o, Obj):
                if name in o.attrs:
                    return o.attrs[name]
                return self.class_attr_on_instance(o.cls, v, name, st)
            if isinstance(o, PyMap):
                return V.vconc(BuiltinMethod(v, "dict." + name))
            if isinstance(o, MatchObj):
                return V.vconc(BuiltinMethod(v, "match." + name))
            if isinstance(o, re.Pattern):
                return V.vconc(BuiltinMethod(v, "pattern." + name))
            if isinstance(o, logging.Logger):
                return V.vconc(BuiltinMethod(v, "logger." + name))
            if isinstance(o, str):
                return V.vconc(BuiltinMethod(V.vstr(o), "str." + name))
            if isinstance(o, SymbolicFile):
                return V.vconc(BuiltinMethod(v, "file." + name))
            if isinstance(o, SuperProxy):
                mro = list(type.mro(self.live_class(o.selfval.shape.key))) if isinstance(o.selfval.shape, RecS) else []
                after = mro[mro.index(o.cls) + 1:] if o.cls in mro else []
                for k in after:
                    if name in k.__dict__:
                        raw = k.__dict__[name]
                        if callable(raw):
                            return V.vconc(BoundMethod(o.selfval, raw, name))
                raise OutOfSubset(f"super().{name}")
            if isinstance(o, LocalClass):
                raise OutOfSubset("attribute of local class")
            if isinstance(o, type) and name in ("__name__", "__qualname__"):
                return V.vstr(getattr(o, name))
            try:
                raw = getattr(o, name)
            except AttributeError:
                raise BindingLost(f"{o!r} has no attribute {name}")
            return self.lift(raw)
        raise OutOfSubset(f"attribute .{name} on {s}")

    def class_attr_on_instance(self, cls, selfval, name, st):
        try:
            raw = None
            for k in cls.__mro__:
                if name in k.__dict__:
                    raw = k.__dict__[name]
                    break
            if raw is None:
                raise AttributeError(name)
        except AttributeError:
            declared = set()
            for k in cls.__mro__:
                declared |= set(getattr(k, "__annotations__", {}) or {})
            if name in declared or self.spec_mode or not isinstance(getattr(selfval, "shape", None), RecS):
                # a declared field the sidecar shape does not know: the contract is out of date
                raise BindingLost(f"{cls.__name__} has no attribute {name}")
            # neither a field, a class attribute nor an annotation of any base: python raises
            self.raise_side(st, "AttributeError", z3.BoolVal(True))
            raise DeadPath()
        if isinstance(raw, (functools.cached_property, property)):
            fn = raw.func if isinstance(raw, functools.cached_property) else raw.fget
            if isinstance(raw, functools.cached_property):
                self.ctx.assumptions.add("functools.cached_property returns the wrapped function's value (memo unobservable: fxvc obligation)")
            return self.call_repo(fn, [selfval], {}, st)
        if isinstance(raw, staticmethod):
            return V.vconc(raw.__func__)
        if isinstance(raw, classmethod):
            return V.vconc(BoundMethod(V.vconc(cls), raw.__func__, name))
        if callable(raw) and not isinstance(raw, type):
            return V.vconc(BoundMethod(selfval, raw, name))
        return self.lift(raw)

    def e_Subscript(self, node, st):
        v = self.eval(node.value, st)
        if isinstance(node.slice, ast.Slice):
            return self.slice(v, node.slice, st)
        i = self.eval(node.slice, st)
        return self.subscript(v, i, st)

    def norm_index(self, i, n, st, exc="IndexError"):
        """Python index normalisation with IndexError fork; returns normalised z3 index."""
        ci, cn = V.concrete_int(i), V.concrete_int(n)
        if ci is not None and cn is not None:
            if -cn <= ci < cn:
                return z3.IntVal(ci % cn if cn else 0)
        self.raise_side(st, exc, z3.Or(i >= n, i < -n))
        if ci is not None:
            return z3.simplify(i + n) if ci < 0 else i
        return z3.If(i < 0, i + n, i)

    def subscript(self, v: Val, i: Val, st) -> Val:
        s = v.shape
        if isinstance(s, ConcS):
            o = v.d
            if isinstance(o, PyMap):
                return self.pymap_get(v, i, st)
            if isinstance(o, Obj):
                gi = self.find_method(o.cls, "__getitem__")
                return self.call_repo(gi, [v, i], {}, st)
            if isinstance(i.shape, StrS) and z3.is_string_value(i.d) and isinstance(o, dict):
                try:
                    return self.lift(o[i.d.as_string()])
                except KeyError:
                    self.raise_side(st, "KeyError", z3.BoolVal(True))
                    raise DeadPath()
            if isinstance(i.shape, ConcS) or V.concrete_int(self.as_sym(i).d) is not None \
                    if isinstance(self.as_sym(i).shape, IntS) else isinstance(i.shape, ConcS):
                key = i.d if isinstance(i.shape, ConcS) else V.concrete_int(self.as_sym(i).d)
                try:
                    return self.lift(o[key])
                except (KeyError, IndexError) as e:
                    self.raise_side(st, type(e).__name__, z3.BoolVal(True))
                    raise DeadPath()
            if isinstance(o, dict):
                # concrete dict, symbolic key (header_tag -> pair table, hopo_state_to_string)
                return self.concdict_get(o, self.as_sym(i), st)
            raise OutOfSubset(f"subscript of concrete {type(o).__name__} with symbolic index")
        i = self.as_sym(i)
        if isinstance(s, SeqS):
            # in contract expressions indexing is mathematical: seq[k] is the k-th element,
            # no negative wrap-around, total (unspecified outside 0..len-1)
            idx = self._int(i) if self.spec_mode else self.norm_index(self._int(i), v.d[1], st)
            e = V.seq_select(v, idx)
            if not self.spec_mode:
                st.assume(V.wf(e))
            return e
        if isinstance(s, TupS):
            ci = V.concrete_int(self._int(i))
            if ci is None:
                n = len(v.d)
                idx = self.norm_index(self._int(i), z3.IntVal(n), st)
                res = v.d[n - 1]
                for k in range(n - 2, -1, -1):
                    res = V.ite(idx == k, v.d[k], res)
                return res
            if not -len(v.d) <= ci < len(v.d):
                self.raise_side(st, "IndexError", z3.BoolVal(True))
                raise DeadPath()
            return v.d[ci]
        if isinstance(s, RecS):
            cls = self.live_class(s.key)
            gi = self.find_method(cls, "__getitem__")
            if gi is None:
                raise OutOfSubset(f"{s.key} is not subscriptable")
            return self.call_repo(gi, [v, i], {}, st)
        if isinstance(s, MapS):
            k = V.leaves(V.coerce(i, s.key))[0]
            self.raise_side(st, "KeyError", z3.Not(z3.Select(v.d[0], k)))
            e = V.from_leaves(s.val, [z3.Select(a, k) for a in v.d[1]])
            if not self.spec_mode:
                st.assume(V.wf(e))
            return e
        if isinstance(s, DictS):
            return self.subscript(v.d[0], i, st)
        if isinstance(s, OptS):
            self.raise_side(st, "TypeError", v.d[0])
            return self.subscript(v.d[1], i, st)
        if isinstance(s, StrS):
            raise OutOfSubset("string indexing")
        raise OutOfSubset(f"subscript on {s}")

    def find_method(self, cls, name):
        for k in cls.__mro__:
            if name in k.__dict__ and k.__module__.startswith("chartparse"):
                return k.__dict__[name]
        return None

    def pymap_get(self, mv: Val, i: Val, st):
        o: PyMap = mv.d
        if not isinstance(i.shape, ConcS):
            li = self.as_sym(i)
            res = None
            conds = []
            for k, val in o.items.items():
                c = self.py_eq(self.lift(k), li)
                conds.append(c)
                res = val if res is None else V.ite(c, val, res)
            self.raise_side(st, "KeyError", z3.Not(z3.Or(conds or [z3.BoolVal(False)])))
            if res is None:
                raise DeadPath()
            return res
        k = i.d
        if k in o.items:
            if k in o.present:
                self.raise_side(st, "KeyError", z3.Not(o.present[k]))
            return o.items[k]
        if o.default is not None:
            # defaultdict: reading an absent key inserts (callers doing m[k].append() write back)
            return o.default(k)
        self.raise_side(st, "KeyError", z3.BoolVal(True))
        raise DeadPath()

    def concdict_get(self, d: dict, key: Val, st):
        res = None
        conds = []
        for k, val in d.items():
            c = self.py_eq(self.lift(k), key)
            conds.append(c)
            lv = self.lift(val)
            res = lv if res is None else V.ite(c, lv, res)
        self.raise_side(st, "KeyError", z3.Not(z3.Or(conds or [z3.BoolVal(False)])))
        if res is None:
            raise DeadPath()
        return res

    def slice(self, v: Val, sl: ast.Slice, st):
        if sl.step is not None:
            raise OutOfSubset("slice step")
        v = self.as_sym(v)
        if isinstance(v.shape, StrS):
            lo = self._int(self.as_sym(self.eval(sl.lower, st))) if sl.lower else None
            hi = self._int(self.as_sym(self.eval(sl.upper, st))) if sl.upper else None
            n = z3.Length(v.d)

            def clamp(i):
                i = z3.If(i < 0, i + n, i)
                return z3.If(i < 0, 0, z3.If(i > n, n, i))
            lo = clamp(lo) if lo is not None else z3.IntVal(0)
            hi = clamp(hi) if hi is not None else n
            return V.vstr(z3.SubString(v.d, lo, z3.If(hi >= lo, hi - lo, 0)))
        if not isinstance(v.shape, SeqS):
            raise OutOfSubset(f"slice of {v.shape}")
        n = v.d[1]

        def clamp(i):
            i = z3.If(i < 0, i + n, i)
            return z3.If(i < 0, 0, z3.If(i > n, n, i))
        lo = clamp(self._int(self.as_sym(self.eval(sl.lower, st)))) if sl.lower else z3.IntVal(0)
        hi = clamp(self._int(self.as_sym(self.eval(sl.upper, st)))) if sl.upper else n
        hi = z3.If(hi >= lo, hi, lo)
        return V.seq_slice(v, z3.simplify(lo), z3.simplify(hi))


class DeadPath(Exception):
    """The current path cannot continue normally (an expression certainly raised)."""


class SpecFn:
    def __init__(self, name, fn):
        self.name = name
        self.fn = fn
