"""Locating the real code: every run re-reads /repo's current source files, indexes every function
by 'module:Qual.name' (nested functions as 'outer.<locals>.inner') and imports the live package so
that names are resolved by the interpreter that runs the code."""
from __future__ import annotations

import ast
import hashlib
import importlib
import os
import sys

REPO = os.environ.get("CHARTPARSE_REPO", "/repo")
PKG = "chartparse"
MODULES = ["exceptions", "hints", "util", "time", "tick", "event", "track", "sync", "instrument",
           "globalevents", "metadata", "chart"]


class FuncInfo:
    def __init__(self, key, module, qualname, node, cls_chain, src):
        self.key = key
        self.module = module          # 'chartparse.tick'
        self.qualname = qualname
        self.node = node              # ast.FunctionDef
        self.cls_chain = cls_chain    # enclosing class qualname or None
        self.src = src

    @property
    def sha(self):
        return hashlib.sha256(self.src.encode()).hexdigest()[:16]


class SourceIndex:
    def __init__(self, repo=REPO):
        self.repo = repo
        self.funcs: dict[str, FuncInfo] = {}
        self.trees = {}
        self.texts = {}
        self.classes = {}   # 'module:Qual' -> ast.ClassDef
        for m in MODULES:
            path = os.path.join(repo, PKG, m + ".py")
            if not os.path.exists(path):
                continue
            text = open(path, encoding="utf-8").read()
            tree = ast.parse(text, filename=path)
            self.trees[f"{PKG}.{m}"] = tree
            self.texts[f"{PKG}.{m}"] = text
            self._index(f"{PKG}.{m}", tree, text)

    def _index(self, module, tree, text):
        def walk(node, prefix, cls):
            for ch in ast.iter_child_nodes(node):
                if isinstance(ch, (ast.FunctionDef, ast.AsyncFunctionDef)):
                    # skip typing.overload stubs (keep the last, real definition)
                    if any(_is_overload(d) for d in ch.decorator_list):
                        continue
                    q = prefix + ch.name
                    key = f"{module}:{q}"
                    src = ast.get_source_segment(text, ch) or ""
                    self.funcs[key] = FuncInfo(key, module, q, ch, cls, src)
                    walk(ch, q + ".<locals>.", None)
                elif isinstance(ch, ast.ClassDef):
                    q = prefix + ch.name
                    self.classes[f"{module}:{q}"] = ch
                    walk(ch, q + ".", q)
                elif isinstance(ch, (ast.If, ast.For, ast.While, ast.With, ast.Try)):
                    walk(ch, prefix, cls)
        walk(tree, "", None)

    def get(self, key) -> FuncInfo:
        return self.funcs[key]


def _is_overload(d):
    return (isinstance(d, ast.Attribute) and d.attr == "overload") or \
           (isinstance(d, ast.Name) and d.id == "overload")


_live = {}


def live_module(name):
    """Import the live module from /repo (chartparse.chart first: C20's import cycle)."""
    if not _live:
        if REPO not in sys.path:
            sys.path.insert(0, REPO)
        importlib.import_module("chartparse.chart")
        _live["ok"] = True
    return importlib.import_module(name)


def key_of_function(fn):
    """Map a live function object (or wrapper) to its 'module:qualname' key, or None."""
    import functools
    seen = 0
    while seen < 5:
        seen += 1
        if isinstance(fn, (classmethod, staticmethod)):
            fn = fn.__func__
            continue
        if isinstance(fn, functools.cached_property):
            fn = fn.func
            continue
        if isinstance(fn, property):
            fn = fn.fget
            continue
        if hasattr(fn, "__wrapped__"):
            fn = fn.__wrapped__
            continue
        if hasattr(fn, "__func__"):
            fn = fn.__func__
            continue
        break
    mod = getattr(fn, "__module__", None)
    q = getattr(fn, "__qualname__", None)
    if mod and q and mod.startswith(PKG):
        return f"{mod}:{q}"
    return None


def class_key(cls):
    return f"{cls.__module__}:{cls.__qualname__}"
