"""Python-side (concrete) helper objects that live inside Val(CONC, ...)."""
from __future__ import annotations

import hashlib

import z3


class Closure:
    def __init__(self, node, env, qualname, module, defaults=None):
        self.node = node            # FunctionDef or Lambda
        self.env = env              # id of the defining scope level (None = module level)
        self.qualname = qualname
        self.module = module
        self.defaults = defaults or {}


class LocalClass:
    """A class statement inside a function (the runtime-checkable Protocol in track.py)."""

    def __init__(self, name, node, method_names, is_protocol):
        self.name = name
        self.node = node
        self.method_names = method_names
        self.is_protocol = is_protocol


class PyMap:
    """dict with concrete (python object) keys.  default: None or callable(key)->Val."""

    def __init__(self, items=None, default=None, kind="dict", present=None):
        self.items = dict(items or {})
        self.default = default
        self.kind = kind
        # present: key -> z3 Bool, for entries that exist only on some merged paths (absent = all True)
        self.present = dict(present or {})

    def copy(self):
        return PyMap(self.items, self.default, self.kind, self.present)


class Obj:
    """A mutable python object owned by the executing function (object under construction,
    ParsedDataMap instance...)."""

    def __init__(self, cls, attrs=None):
        self.cls = cls
        self.attrs = dict(attrs or {})

    def copy(self):
        return Obj(self.cls, self.attrs)


class ExcInst:
    def __init__(self, cls, args=()):
        self.cls = cls
        self.args = args


class MatchObj:
    def __init__(self, rx, line, isnone):
        self.rx = rx            # RxSym
        self.line = line        # z3 String
        self.isnone = isnone    # z3 Bool


class BoundMethod:
    def __init__(self, selfval, func, name):
        self.selfval = selfval
        self.func = func        # live function object or Closure
        self.name = name


class BuiltinMethod:
    def __init__(self, selfval, name):
        self.selfval = selfval
        self.name = name


class GenExp:
    def __init__(self, node, env):
        self.node = node
        self.env = env


class RangeObj:
    def __init__(self, lo, hi):
        self.lo, self.hi = lo, hi


class EnumerateObj:
    def __init__(self, seq):
        self.seq = seq


class FilterObj:
    def __init__(self, fn, seq):
        self.fn, self.seq = fn, seq


class IsliceObj:
    def __init__(self, seq, lo, hi):
        self.seq, self.lo, self.hi = seq, lo, hi


class ItemsObj:
    def __init__(self, mapval):
        self.mapval = mapval


class KeyVal:
    """a dict-literal key that is a symbolic-engine value (an enum member, a tuple): hashable by
    identity, compared through py_eq at lookup"""

    def __init__(self, val):
        self.val = val


class SuperProxy:
    """super() inside a method: attribute lookup continues after `cls` in the MRO of type(self)"""

    def __init__(self, cls, selfval):
        self.cls, self.selfval = cls, selfval


class SymbolicFile:
    """a text file object whose content is arbitrary (fp.read() is a fresh string)"""


class RxSym:
    """Abstract view of one compiled pattern: MATCH predicate and GROUP functions over the line,
    named by the pattern text so that equal patterns share symbols."""

    _cache = {}

    def __new__(cls, pattern: str, ngroups: int):
        k = (pattern, ngroups)
        if k in cls._cache:
            return cls._cache[k]
        o = super().__new__(cls)
        h = hashlib.sha1(pattern.encode()).hexdigest()[:8]
        o.pattern = pattern
        o.ngroups = ngroups
        o.tag = h
        S, B = z3.StringSort(), z3.BoolSort()
        o.match = z3.Function(f"MATCH_{h}", S, B)
        o.group = [None] + [z3.Function(f"GRP_{h}_{i}", S, S) for i in range(1, ngroups + 1)]
        o.group_none = [None] + [z3.Function(f"GRPNONE_{h}_{i}", S, B) for i in range(1, ngroups + 1)]
        cls._cache[k] = o
        return o


PYINT = z3.Function("PYINT", z3.StringSort(), z3.IntSort())
DECOK = z3.Function("DECOK", z3.StringSort(), z3.BoolSort())
PYPOW = z3.Function("PYPOW", z3.IntSort(), z3.IntSort(), z3.IntSort())
