"""Solver back ends: z3 (python API) first, cvc5 CLI on z3's unknowns."""
from __future__ import annotations

import os
import subprocess
import tempfile
import time

import z3

QUICK_TIMEOUT_MS = int(os.environ.get("PYVC_TIMEOUT_MS", "30000"))
FEAS_TIMEOUT_MS = 1000
FAST_MS = 3000


_quant_cache = {}
_DEADLINE = [None]      # wall-clock limit for the fallback stages of the obligation in progress


def _expired():
    return _DEADLINE[0] is not None and time.time() > _DEADLINE[0]


def _has_quant(f):
    i = f.get_id()
    r = _quant_cache.get(i)
    if r is None:
        r = False
        stack = [f]
        seen = set()
        while stack:
            t = stack.pop()
            if t.get_id() in seen:
                continue
            seen.add(t.get_id())
            if z3.is_quantifier(t):
                r = True
                break
            stack.extend(t.children())
        _quant_cache[i] = r
    return r


FEAS_STATS = {"calls": 0, "seconds": 0.0, "unknown": 0}


def feasible(formulas, timeout_ms=FEAS_TIMEOUT_MS):
    """False only if the conjunction is definitely unsatisfiable."""
    t0 = time.time()
    s = z3.Solver()
    s.set("timeout", timeout_ms)
    for f in formulas:
        # path pruning only uses the quantifier-free part of the path condition (an
        # over-approximation of feasibility: prunes less, never more)
        if not _has_quant(f):
            s.add(f)
    r = s.check()
    FEAS_STATS["calls"] += 1
    FEAS_STATS["seconds"] += time.time() - t0
    if r == z3.unknown:
        FEAS_STATS["unknown"] += 1
    return r != z3.unsat


class _Cvc5Job:
    """cvc5 CLI on one query, started in the background so that z3's long stage runs meanwhile."""

    def __init__(self, smt2: str, timeout_s: int):
        self.proc = None
        self.path = None
        self.timeout_s = timeout_s
        exe = "/usr/bin/cvc5"
        if not os.path.exists(exe):
            return
        with tempfile.NamedTemporaryFile("w", suffix=".smt2", delete=False) as f:
            f.write("(set-logic ALL)\n" + smt2 + "\n(check-sat)\n")
            self.path = f.name
        try:
            self.proc = subprocess.Popen([exe, "--strings-exp", f"--tlimit={timeout_s*1000}", self.path],
                                         stdout=subprocess.PIPE, stderr=subprocess.PIPE, text=True)
            self.t0 = time.time()
        except Exception:
            self.proc = None

    def result(self, wait=True):
        """('sat'|'unsat'|'unknown', detail).  wait=False: only if already finished."""
        if self.proc is None:
            self._cleanup()
            return "unknown", "cvc5 missing"
        try:
            if not wait and self.proc.poll() is None:
                return None, ""
            remaining = max(1.0, self.timeout_s + 5 - (time.time() - self.t0))
            out, err = self.proc.communicate(timeout=remaining)
            lines = (out or "").strip().splitlines()
            res = lines[0] if lines else "unknown"
            return (res if res in ("sat", "unsat") else "unknown"), (err or "")[:200]
        except Exception as e:       # timeout or crash: undecided
            self.cancel()
            return "unknown", repr(e)[:200]
        finally:
            if self.proc is None or self.proc.poll() is not None:
                self._cleanup()

    def cancel(self):
        try:
            if self.proc is not None and self.proc.poll() is None:
                self.proc.kill()
                self.proc.communicate(timeout=5)
        except Exception:
            pass
        self._cleanup()

    def _cleanup(self):
        if self.path and os.path.exists(self.path):
            try:
                os.unlink(self.path)
            except OSError:
                pass
        self.path = None


def _cvc5(smt2: str, timeout_s: int):
    return _Cvc5Job(smt2, timeout_s).result()


def _size(f):
    n = 0
    stack = [f]
    seen = set()
    while stack and n < 20000:
        t = stack.pop()
        if t.get_id() in seen:
            continue
        seen.add(t.get_id())
        n += 1
        if z3.is_quantifier(t):
            stack.append(t.body())
        else:
            stack.extend(t.children())
    return n


_sym_cache = {}


def _syms(f):
    i = f.get_id()
    r = _sym_cache.get(i)
    if r is not None:
        return r
    out = set()
    stack = [f]
    seen = set()
    while stack:
        t = stack.pop()
        if t.get_id() in seen:
            continue
        seen.add(t.get_id())
        if z3.is_quantifier(t):
            stack.append(t.body())
            continue
        if z3.is_app(t):
            d = t.decl()
            if d.kind() == z3.Z3_OP_UNINTERPRETED:
                out.add(d.name())
            stack.extend(t.children())
    _sym_cache[i] = out
    return out


def _relevance_stage(ob, axioms, seed, t0, per_try_ms=5000):
    """Relevance filtering (in the style of Sledgehammer's MePo): prove the goal from the
    hypotheses most related to it by shared symbols, growing the set in rounds.  Any proof from
    a subset of the hypotheses is a proof."""
    import math
    hyps = list(ob.pc)
    if len(hyps) < 8:
        return False
    hs = [_syms(h) for h in hyps]
    freq = {}
    for ss in hs:
        for x in ss:
            freq[x] = freq.get(x, 0) + 1
    w = lambda x: 1.0 + 2.0 / math.log(1.0 + freq.get(x, 1) + 1.0)
    always = {i for i, h in enumerate(hyps) if not _has_quant(h) and _size(h) < 120}
    R = set(_syms(ob.goal))
    selected = set()
    tried = []
    for thr in (0.7, 0.55, 0.4, 0.3, 0.2):
        if _expired():
            return False
        changed = True
        rounds = 0
        while changed and rounds < 3:
            changed = False
            rounds += 1
            for i, ss in enumerate(hs):
                if i in selected or i in always or not ss:
                    continue
                tot = sum(w(x) for x in ss)
                sc = sum(w(x) for x in ss if x in R) / tot if tot else 0
                if sc >= thr:
                    selected.add(i)
                    changed = True
            for i in selected:
                R |= hs[i]
        cur = frozenset(selected | always)
        if cur in tried or len(cur) == len(hyps):
            continue
        tried.append(cur)
        s = z3.Solver()
        s.set("timeout", per_try_ms)
        s.set("random_seed", seed)
        for a in axioms:
            s.add(a)
        for i in sorted(cur):
            s.add(hyps[i])
        s.add(z3.Not(ob.goal))
        if s.check() == z3.unsat:
            ob.status = "discharged"
            ob.backend = "z3"
            ob.seconds = time.time() - t0
            ob.reason = f"proved from the {len(cur)} most relevant of {len(hyps)} hypotheses (relevance filter, threshold {thr})"
            return True
    return False


_len_cache = {}


def _slen(f):
    i = f.get_id()
    if i not in _len_cache:
        _len_cache[i] = len(f.sexpr())
    return _len_cache[i]


def _small_plus_rare(ob, axioms, seed, t0, per_try_ms=5000):
    """Prove the goal from the small hypotheses plus the hypotheses that mention a symbol of the
    goal occurring in few hypotheses (its 'own' facts: loop state, current callee results)."""
    hyps = list(ob.pc)
    if len(hyps) < 10:
        return False
    hs = [_syms(h) for h in hyps]
    freq = {}
    for ss in hs:
        for x in ss:
            freq[x] = freq.get(x, 0) + 1
    gs = _syms(ob.goal)
    for rare_max in (3, 6):
        rare = {x for x in gs if freq.get(x, 0) <= rare_max}
        own = {i for i, ss in enumerate(hs) if ss & rare}
        for cap in (600, 1500, 5000):
            if _expired():
                return False
            keep = own | {i for i, h in enumerate(hyps) if _slen(h) <= cap}
            if len(keep) == len(hyps):
                continue
            s = z3.Solver()
            s.set("timeout", per_try_ms)
            s.set("random_seed", seed)
            for a in axioms:
                s.add(a)
            for i in sorted(keep):
                s.add(hyps[i])
            s.add(z3.Not(ob.goal))
            if s.check() == z3.unsat:
                ob.status = "discharged"
                ob.backend = "z3"
                ob.seconds = time.time() - t0
                ob.reason = f"proved from {len(keep)} of {len(hyps)} hypotheses (small ones <= {cap} chars plus those about the goal's own symbols)"
                return True
    return False


def _own_facts_stage(ob, axioms, seed, t0):
    """Goal-directed first try after the fast stage: the hypotheses about the goal's own (rare)
    symbols - the loop state it talks about, the current callee results, hints - plus the tiny
    quantifier-free facts (ranges, path conditions).  Irrelevant quantified hypotheses are what
    makes most slow proofs slow (instantiation noise); a proof from a subset is a proof."""
    hyps = list(ob.pc)
    if len(hyps) < 10:
        return False
    hs = [_syms(h) for h in hyps]
    freq = {}
    for ss in hs:
        for x in ss:
            freq[x] = freq.get(x, 0) + 1
    gs = _syms(ob.goal)
    for rare_max, cap, ms in ((3, 120, 2000), (4, 300, 3000)):
        rare = {x for x in gs if freq.get(x, 0) <= rare_max}
        own = {i for i, ss in enumerate(hs) if ss & rare}
        # ... and the most recent facts on the path (current iteration: callee results, hints)
        keep = own | {i for i, h in enumerate(hyps) if _slen(h) <= cap and not _has_quant(h)} | set(range(max(0, len(hyps) - 16), len(hyps)))
        if len(keep) == len(hyps):
            return False
        s = z3.Solver()
        s.set("timeout", ms)
        s.set("random_seed", seed)
        for a in axioms:
            s.add(a)
        for i in sorted(keep):
            s.add(hyps[i])
        s.add(z3.Not(ob.goal))
        if s.check() == z3.unsat:
            ob.status = "discharged"
            ob.backend = "z3"
            ob.seconds = time.time() - t0
            ob.reason = f"proved from {len(keep)} of {len(hyps)} hypotheses (those about the goal's own symbols, the 16 most recent, and quantifier-free facts <= {cap} chars)"
            return True
    return False


def _drop_large(ob, axioms, seed, t0, per_try_ms=4000):
    quant = [(i, _size(p)) for i, p in enumerate(ob.pc) if _has_quant(p)]
    if len(quant) < 2:
        return False
    quant.sort(key=lambda x: -x[1])
    attempts = [{i for i, _ in quant[:k]} for k in (1, 2, 3, 4, 6, 8, 12, 16) if k < len(quant) + 1]
    # leave-one-out over the larger quantified hypotheses
    attempts += [{i} for i, sz in quant[:24] if sz > 150]
    seen_sets = []
    for drop in attempts:
        if _expired():
            return False
        if drop in seen_sets:
            continue
        seen_sets.append(drop)
        k = len(drop)
        s = z3.Solver()
        s.set("timeout", per_try_ms)
        s.set("random_seed", seed)
        for a in axioms:
            s.add(a)
        for i, p in enumerate(ob.pc):
            if i not in drop:
                s.add(p)
        s.add(z3.Not(ob.goal))
        if s.check() == z3.unsat:
            ob.status = "discharged"
            ob.backend = "z3"
            ob.seconds = time.time() - t0
            ob.reason = f"proved from a subset of the hypotheses ({k} large quantified hypothesis(es) dropped)"
            return True
    return False


def _full_solver(ob, axioms, seed, timeout_ms):
    s = z3.Solver()
    s.set("random_seed", seed)
    for a in axioms:
        s.add(a)
    for p in ob.pc:
        s.add(p)
    s.add(z3.Not(ob.goal))
    s.set("timeout", timeout_ms)
    return s


def discharge(ob, axioms, timeout_ms=None, use_cvc5=True, seed=0, first_pass=False):
    """Decide pc /\\ axioms |= goal.  Sets ob.status / backend / seconds / model.
    first_pass: only the cheap stages (quantifier-free, z3 3 s, own facts); an obligation they
    leave open is returned with status 'pending' so that the caller can try the finite refutation
    search before spending the long stages on it (calling discharge again resumes there)."""
    timeout_ms = timeout_ms or QUICK_TIMEOUT_MS
    if getattr(ob, "status", None) == "pending":
        t0 = time.time() - (ob.seconds or 0)
        return _long_stages(ob, axioms, timeout_ms, use_cvc5, seed, t0)
    t0 = time.time()
    # stage 0: only the quantifier-free hypotheses (fewer hypotheses: sound).  Arithmetic
    # obligations (float ranges, rounding bounds) are then pure QF_NIRA and z3 uses nlsat.
    qf_ax = [a for a in axioms if not _has_quant(a)]
    qf_pc = [p for p in ob.pc if not _has_quant(p)]
    if (len(qf_ax) != len(axioms) or len(qf_pc) != len(ob.pc)) and not _has_quant(ob.goal) \
            and ob.kind in ("float-range", "lemma", "escape", "exc-justified", "exc-missed"):
        s0 = z3.Solver()
        s0.set("timeout", min(1500, timeout_ms))
        s0.set("random_seed", seed)
        for a in qf_ax + qf_pc:
            s0.add(a)
        s0.add(z3.Not(ob.goal))
        if s0.check() == z3.unsat:
            ob.status = "discharged"
            ob.backend = "z3"
            ob.seconds = time.time() - t0
            ob.reason = "quantifier-free hypotheses suffice"
            return ob
    # stage 1: z3 with a short budget (almost everything is decided in milliseconds)
    s = _full_solver(ob, axioms, seed, min(FAST_MS, timeout_ms))
    r = s.check()
    if r != z3.unknown or timeout_ms <= FAST_MS:
        return _finish(ob, s, r, t0)
    # stage 2: the goal's own facts
    if _own_facts_stage(ob, axioms, seed, t0):
        return ob
    if first_pass:
        ob.status = "pending"
        ob.backend = "z3"
        ob.seconds = time.time() - t0
        ob.reason = "z3: " + s.reason_unknown()
        return ob
    return _long_stages(ob, axioms, timeout_ms, use_cvc5, seed, t0)


def _finish(ob, s, r, t0):
    ob.seconds = time.time() - t0
    ob.backend = "z3"
    if r == z3.unsat:
        ob.status = "discharged"
    elif r == z3.sat:
        ob.status = "refuted"
        ob.model = s.model()
        ob.reason = "z3: sat"
    else:
        ob.status = "undecided"
        ob.reason = "z3: " + s.reason_unknown()
    return ob


def _long_stages(ob, axioms, timeout_ms, use_cvc5, seed, t0):
    # stage 3: z3 with the full budget (fresh solver, own thread) and cvc5 (background process),
    # whichever decides first
    s = _full_solver(ob, axioms, seed, timeout_ms)
    job = None
    if use_cvc5:
        try:
            job = _Cvc5Job(s.to_smt2().replace("(check-sat)", ""), max(5, timeout_ms // 1000))
        except Exception:
            job = None
    if job is None:
        r = s.check()
    else:
        import threading
        box = {}

        def _run():
            try:
                box["r"] = s.check()
            except Exception:
                box["r"] = z3.unknown
        th = threading.Thread(target=_run, daemon=True)
        th.start()
        res = None
        while th.is_alive():
            th.join(0.05)
            if res is None:
                got, _err = job.result(wait=False)
                if got in ("sat", "unsat"):
                    res = got
                    try:
                        s.ctx.interrupt()
                    except Exception:
                        pass
                elif got == "unknown":
                    res = "unknown"
        r = box.get("r", z3.unknown)
        if r == z3.unknown and res is None:
            res, _err = job.result(wait=True)
        if r == z3.unknown and res in ("unsat", "sat"):
            ob.seconds = time.time() - t0
            ob.backend = "cvc5"
            ob.status = "discharged" if res == "unsat" else "refuted"
            ob.reason = "z3: unknown; cvc5: " + res + ("" if res == "unsat" else " (no model extracted)")
            return ob
        job.cancel()
    if r != z3.unknown:
        return _finish(ob, s, r, t0)
    ob.backend = "z3"
    ob.reason = "z3: " + s.reason_unknown()
    # the fallback stages share one wall-clock budget (2.5 x the per-obligation budget): an
    # obligation that is false but not refutable must not hold a quick run for minutes
    _DEADLINE[0] = time.time() + 2.5 * timeout_ms / 1000.0
    # stage 4: fewer hypotheses (sound).  Large callee postconditions / invariants that are
    # irrelevant to this goal often drown the instantiation engine; a proof from a subset of the
    # hypotheses is a proof.
    if _small_plus_rare(ob, axioms, seed, t0):
        return ob
    if _relevance_stage(ob, axioms, seed, t0):
        return ob
    if _drop_large(ob, axioms, seed, t0):
        return ob
    _DEADLINE[0] = None
    ob.seconds = time.time() - t0
    ob.status = "undecided"
    return ob
