"""Rounding model for Python floats and the assumed contracts of round() and timedelta().

A float is its exact real value.  Every IEEE-754 basic operation, CPython's int/int true
division and the decimal->binary conversion inside round(x, n) are *correctly rounded*, i.e. they
are one and the same function RN (round to nearest even) applied to the exact result.  RN is an
uninterpreted function; its axioms are instantiated per application (quantifier free):

  F1  |RN(r) - r| <= u*|r|,  u = 2**-53        (valid in the normal range; the range itself is a
                                               separate obligation generated at every operation)
  F1' RN preserves sign and zero
  F2  RN is monotone (instantiated pairwise over all applications of one VC)
  F3  RN(i) = i for integers |i| <= 2**53
  F5  RN(RN(r)) = RN(r)

round(x)        = ROUND(x): nearest integer, ties to even (defining constraints instantiated)
round(x, 3)     = RN(ROUND(1000*x)/1000)      (CPython: correctly rounded dtoa/strtod round trip)
timedelta(seconds=f) = TD(f) microseconds with TD2..TD5 (assumed library contract, DESIGN 3.4)
"""
from __future__ import annotations

import z3

U = z3.RealVal("1/9007199254740992")          # 2**-53
TWO53 = 9007199254740992
RANGE_LO = z3.RealVal(f"1/{2**1000}")
RANGE_HI = z3.RealVal(str(2**1000))
TD_SLACK = z3.RealVal("1/4294967296")         # 2**-32 microseconds

RNf = z3.Function("RN", z3.RealSort(), z3.RealSort())
ROUNDf = z3.Function("ROUND", z3.RealSort(), z3.IntSort())
TDf = z3.Function("TD", z3.RealSort(), z3.IntSort())


def rabs(x):
    return z3.If(x >= 0, x, -x)


def in_range(x):
    a = rabs(x)
    return z3.Or(x == 0, z3.And(a >= RANGE_LO, a <= RANGE_HI))


class FloatModel:
    """Per-VC registry of RN / ROUND / TD applications; yields instantiated axioms."""

    def __init__(self):
        self.axioms = []
        self.rn_apps = []
        self.td_apps = []
        self.round_apps = []
        self._seen = {}

    def rn(self, x, int_arg=None):
        x = z3.simplify(x)
        key = ("rn", x.get_id())
        if key in self._seen:
            return self._seen[key]
        r = RNf(x)
        ax = self.axioms
        a = rabs(x)
        ax.append(z3.Implies(in_range(x), z3.And(r - x <= U * a, x - r <= U * a)))
        ax.append(z3.Implies(x >= 0, r >= 0))
        ax.append(z3.Implies(x <= 0, r <= 0))
        ax.append(RNf(r) == r)
        if int_arg is not None:
            ax.append(z3.Implies(z3.And(int_arg <= TWO53, int_arg >= -TWO53), r == x))
        for (y, ry) in self.rn_apps:
            ax.append(z3.Implies(x <= y, r <= ry))
            ax.append(z3.Implies(y <= x, ry <= r))
        self.rn_apps.append((x, r))
        self._seen[key] = r
        return r

    def round0(self, x):
        x = z3.simplify(x)
        key = ("round", x.get_id())
        if key in self._seen:
            return self._seen[key]
        n = ROUNDf(x)
        half = z3.RealVal("1/2")
        nr = z3.ToReal(n)
        self.axioms.append(z3.And(nr - half <= x, x <= nr + half))
        self.axioms.append(z3.Implies(z3.Or(x == nr + half, x == nr - half), n % 2 == 0))
        for (y, ny) in self.round_apps:
            self.axioms.append(z3.Implies(x <= y, n <= ny))
            self.axioms.append(z3.Implies(y <= x, ny <= n))
        self.round_apps.append((x, n))
        self._seen[key] = n
        return n

    def round_ndigits(self, x, nd: int):
        scale = 10 ** nd
        m = self.round0(x * scale)
        return self.rn(z3.ToReal(m) / scale)

    def td(self, f):
        f = z3.simplify(f)
        key = ("td", f.get_id())
        if key in self._seen:
            return self._seen[key]
        t = TDf(f)
        tr = z3.ToReal(t)
        bound = z3.RealVal("1/2") + TD_SLACK
        e = 1000000 * f
        self.axioms.append(z3.And(tr - e <= bound, e - tr <= bound))
        self.axioms.append(z3.Implies(f >= 0, t >= 0))
        self.axioms.append(z3.Implies(f <= 0, t <= 0))
        for (g, tg) in self.td_apps:
            self.axioms.append(z3.Implies(f <= g, t <= tg))
            self.axioms.append(z3.Implies(g <= f, tg <= t))
        self.td_apps.append((f, t))
        self._seen[key] = t
        return t
