"""Symbolic values for pyvc.

A Python value is represented by a *shape* (its static structure) plus z3 terms for the leaves.
Sequences are "structs of arrays": a sequence of shape S is one z3 array per leaf of S plus an
integer length, so no SMT datatypes and no sequence theory are needed.

Floats are their exact real value (z3 Real); the rounding model lives in floats.py.
timedelta is an exact integer number of microseconds.
"""
from __future__ import annotations

import itertools
import z3

_counter = itertools.count()


def fresh_name(prefix: str) -> str:
    return f"{prefix}!{next(_counter)}"


class Shape:
    def sorts(self):
        raise NotImplementedError

    def __repr__(self):
        return self.__class__.__name__


class _Atom(Shape):
    _sort = None

    def sorts(self):
        return [self._sort()]

    def __eq__(self, o):
        return self.__class__ is o.__class__

    def __hash__(self):
        return hash(self.__class__.__name__)


class IntS(_Atom):
    _sort = staticmethod(z3.IntSort)


class BoolS(_Atom):
    _sort = staticmethod(z3.BoolSort)


class RealS(_Atom):
    """A Python float, as its exact real value."""
    _sort = staticmethod(z3.RealSort)


class StrS(_Atom):
    _sort = staticmethod(z3.StringSort)


class TdS(_Atom):
    """datetime.timedelta as exact microseconds."""
    _sort = staticmethod(z3.IntSort)


class NoneS(Shape):
    def sorts(self):
        return []

    def __eq__(self, o):
        return isinstance(o, NoneS)

    def __hash__(self):
        return 7


INT, BOOL, REAL, STR, TD, NONE = IntS(), BoolS(), RealS(), StrS(), TdS(), NoneS()


class OptS(Shape):
    def __init__(self, inner):
        assert not isinstance(inner, (OptS, NoneS))
        self.inner = inner

    def sorts(self):
        return [z3.BoolSort()] + self.inner.sorts()

    def __eq__(self, o):
        return isinstance(o, OptS) and self.inner == o.inner

    def __hash__(self):
        return hash(("opt", self.inner))

    def __repr__(self):
        return f"Opt({self.inner!r})"


class TupS(Shape):
    def __init__(self, items):
        self.items = list(items)

    def sorts(self):
        return [s for it in self.items for s in it.sorts()]

    def __eq__(self, o):
        return isinstance(o, TupS) and self.items == o.items

    def __hash__(self):
        return hash(("tup", tuple(self.items)))

    def __repr__(self):
        return f"Tup({', '.join(map(repr, self.items))})"


class RecS(Shape):
    """Instance of a (frozen data)class. `key` is 'module:Qual.Name'."""

    def __init__(self, key, fields):
        self.key = key
        self.fields = dict(fields)

    def sorts(self):
        return [s for f in self.fields.values() for s in f.sorts()]

    def __eq__(self, o):
        return isinstance(o, RecS) and self.key == o.key

    def __hash__(self):
        return hash(("rec", self.key))

    def __repr__(self):
        return f"Rec({self.key})"


class SeqS(Shape):
    def __init__(self, elem):
        self.elem = elem

    def sorts(self):
        return [z3.ArraySort(z3.IntSort(), s) for s in self.elem.sorts()] + [z3.IntSort()]

    def __eq__(self, o):
        return isinstance(o, SeqS) and self.elem == o.elem

    def __hash__(self):
        return hash(("seq", self.elem))

    def __repr__(self):
        return f"Seq({self.elem!r})"


class EnumS(Shape):
    """An Enum member, represented by its `.value` (members have pairwise distinct values once
    aliases are identified, so value equality is member identity).  `members` = list of
    (canonical name, python value), filled from the live class."""

    def __init__(self, key, value_shape, members, ordinal=False):
        self.key = key
        self.value_shape = value_shape
        self.members = members
        # ordinal=True: represented by the member's position (an Int) instead of its value; used
        # for string-valued enums so that maps keyed by them are integer-indexed arrays.  `.value`
        # is then the table lookup position -> value (read from the live class).
        self.ordinal = ordinal

    @property
    def rep_shape(self):
        return INT if self.ordinal else self.value_shape

    def sorts(self):
        return self.rep_shape.sorts()

    def __eq__(self, o):
        return isinstance(o, EnumS) and self.key == o.key

    def __hash__(self):
        return hash(("enum", self.key))

    def __repr__(self):
        return f"Enum({self.key})"


class UnionS(Shape):
    def __init__(self, alts):
        self.alts = list(alts)

    def sorts(self):
        return [z3.IntSort()] + [s for a in self.alts for s in a.sorts()]

    def __eq__(self, o):
        return isinstance(o, UnionS) and self.alts == o.alts

    def __hash__(self):
        return hash(("union", tuple(self.alts)))

    def __repr__(self):
        return f"Union({', '.join(map(repr, self.alts))})"


class MapS(Shape):
    """dict with *statically known* finite key set is handled python-side (ConcMap);
    MapS is a dict K -> V with symbolic keys: presence array + value arrays."""

    def __init__(self, key, val):
        self.key = key
        self.val = val
        assert len(key.sorts()) == 1

    def sorts(self):
        k = self.key.sorts()[0]
        return [z3.ArraySort(k, z3.BoolSort())] + [z3.ArraySort(k, s) for s in self.val.sorts()]

    def __eq__(self, o):
        return isinstance(o, MapS) and self.key == o.key and self.val == o.val

    def __hash__(self):
        return hash(("map", self.key, self.val))

    def __repr__(self):
        return f"Map({self.key!r}->{self.val!r})"


class ViewS(Shape):
    """itertools.islice(base, lo, hi) over a fixed list `base` (a Val held by reference): the value
    is just the two bounds, so maps of views stay maps of integers."""

    def __init__(self, base):
        self.base = base

    def sorts(self):
        return [z3.IntSort(), z3.IntSort()]

    def __eq__(self, o):
        return isinstance(o, ViewS) and o.base is self.base

    def __hash__(self):
        return hash(("view", id(self.base)))

    def __repr__(self):
        return "View"


def view_to_seq(v):
    """the list of elements an islice view yields: base[lo:hi] with islice's clamping"""
    base = v.shape.base
    n = base.d[1]
    lo, hi = v.d
    lo2 = z3.If(lo > n, n, lo)
    hi2 = z3.If(hi > n, n, hi)
    hi2 = z3.If(hi2 >= lo2, hi2, lo2)
    return seq_slice(base, z3.simplify(lo2), z3.simplify(hi2))


class DictS(Shape):
    """dict with symbolic keys and observable insertion order: presence/value arrays as in MapS
    plus the sequence of keys in insertion order (distinct; presence <=> occurs in it)."""

    def __init__(self, key, val):
        self.key, self.val = key, val
        self.map = MapS(key, val)
        self.keys = SeqS(key)

    def sorts(self):
        return self.map.sorts() + self.keys.sorts()

    def __eq__(self, o):
        return isinstance(o, DictS) and self.key == o.key and self.val == o.val

    def __hash__(self):
        return hash(("dict", self.key, self.val))

    def __repr__(self):
        return f"Dict({self.key!r}->{self.val!r})"


class ConcS(Shape):
    """A concrete python object (class, function, module, compiled pattern, closure ...)."""

    def sorts(self):
        return []

    def __eq__(self, o):
        return isinstance(o, ConcS)

    def __hash__(self):
        return 11


CONC = ConcS()


class Val:
    __slots__ = ("shape", "d", "view")

    def __init__(self, shape, d):
        self.shape = shape
        self.d = d
        self.view = None      # for slices: (base Val, lo)

    def __repr__(self):
        return f"Val<{self.shape!r}:{self.d!r}>"


# ---------------------------------------------------------------- constructors

def vint(x):
    return Val(INT, z3.IntVal(x) if isinstance(x, int) else x)


def vbool(x):
    return Val(BOOL, z3.BoolVal(x) if isinstance(x, bool) else x)


def vreal(x):
    if isinstance(x, (int, float)):
        import fractions
        fr = fractions.Fraction(x)
        x = z3.RealVal(f"{fr.numerator}/{fr.denominator}")
    return Val(REAL, x)


def vstr(x):
    return Val(STR, z3.StringVal(x) if isinstance(x, str) else x)


def vtd(x):
    return Val(TD, z3.IntVal(x) if isinstance(x, int) else x)


VNONE = Val(NONE, None)


def vconc(obj):
    return Val(CONC, obj)


def vtup(items):
    items = list(items)
    return Val(TupS([i.shape for i in items]), items)


def vrec(shape: RecS, fields: dict):
    assert set(fields) == set(shape.fields), (shape.key, set(fields) ^ set(shape.fields))
    return Val(shape, {k: coerce(fields[k], shape.fields[k]) for k in shape.fields})


def vsome(v: Val):
    if isinstance(v.shape, OptS):
        return v
    return Val(OptS(v.shape), (z3.BoolVal(False), v))


def vnone_of(shape: OptS):
    return Val(shape, (z3.BoolVal(True), default(shape.inner)))


def vseq_empty(elem: Shape):
    arrs = [z3.K(z3.IntSort(), _default_leaf(s)) for s in elem.sorts()]
    return Val(SeqS(elem), (arrs, z3.IntVal(0)))


def _default_leaf(sort):
    if sort == z3.IntSort():
        return z3.IntVal(0)
    if sort == z3.BoolSort():
        return z3.BoolVal(False)
    if sort == z3.RealSort():
        return z3.RealVal(0)
    if sort == z3.StringSort():
        return z3.StringVal("")
    if isinstance(sort, z3.ArraySortRef):
        return z3.K(sort.domain(), _default_leaf(sort.range()))
    raise TypeError(sort)


def default(shape: Shape) -> Val:
    return from_leaves(shape, [_default_leaf(s) for s in shape.sorts()])


# ---------------------------------------------------------------- leaves

def leaves(v: Val):
    s = v.shape
    if isinstance(s, (IntS, BoolS, RealS, StrS, TdS)):
        return [v.d]
    if isinstance(s, (NoneS, ConcS)):
        return []
    if isinstance(s, OptS):
        return [v.d[0]] + leaves(v.d[1])
    if isinstance(s, TupS):
        return [l for it in v.d for l in leaves(it)]
    if isinstance(s, RecS):
        return [l for k in s.fields for l in leaves(v.d[k])]
    if isinstance(s, SeqS):
        return list(v.d[0]) + [v.d[1]]
    if isinstance(s, EnumS):
        return leaves(v.d)
    if isinstance(s, UnionS):
        return [v.d[0]] + [l for a in v.d[1] for l in leaves(a)]
    if isinstance(s, MapS):
        return [v.d[0]] + list(v.d[1])
    if isinstance(s, DictS):
        return leaves(v.d[0]) + leaves(v.d[1])
    if isinstance(s, ViewS):
        return list(v.d)
    raise TypeError(s)


def from_leaves(shape: Shape, ls) -> Val:
    it = iter(ls)
    v = _from(shape, it)
    rest = list(it)
    assert not rest
    return v


def _from(s, it) -> Val:
    if isinstance(s, (IntS, BoolS, RealS, StrS, TdS)):
        return Val(s, next(it))
    if isinstance(s, NoneS):
        return VNONE
    if isinstance(s, OptS):
        isn = next(it)
        return Val(s, (isn, _from(s.inner, it)))
    if isinstance(s, TupS):
        return Val(s, [_from(i, it) for i in s.items])
    if isinstance(s, RecS):
        return Val(s, {k: _from(f, it) for k, f in s.fields.items()})
    if isinstance(s, SeqS):
        n = len(s.elem.sorts())
        arrs = [next(it) for _ in range(n)]
        return Val(s, (arrs, next(it)))
    if isinstance(s, EnumS):
        return Val(s, _from(s.rep_shape, it))
    if isinstance(s, UnionS):
        tag = next(it)
        return Val(s, (tag, [_from(a, it) for a in s.alts]))
    if isinstance(s, MapS):
        pres = next(it)
        n = len(s.val.sorts())
        return Val(s, (pres, [next(it) for _ in range(n)]))
    if isinstance(s, DictS):
        m = _from(s.map, it)
        k = _from(s.keys, it)
        return Val(s, (m, k))
    if isinstance(s, ViewS):
        return Val(s, (next(it), next(it)))
    raise TypeError(s)


def fresh(shape: Shape, prefix: str) -> Val:
    return from_leaves(shape, [z3.Const(fresh_name(prefix), srt) for srt in shape.sorts()])


# ---------------------------------------------------------------- type invariants

def const_of_py(pyv, shape: Shape) -> Val:
    """Convert a ground python value to a Val of the given shape."""
    if isinstance(shape, IntS):
        assert isinstance(pyv, int) and not isinstance(pyv, bool), pyv
        return vint(pyv)
    if isinstance(shape, BoolS):
        return vbool(bool(pyv))
    if isinstance(shape, RealS):
        return vreal(pyv)
    if isinstance(shape, StrS):
        return vstr(pyv)
    if isinstance(shape, TupS):
        assert len(pyv) == len(shape.items)
        return Val(shape, [const_of_py(p, s) for p, s in zip(pyv, shape.items)])
    if isinstance(shape, OptS):
        if pyv is None:
            return vnone_of(shape)
        return Val(shape, (z3.BoolVal(False), const_of_py(pyv, shape.inner)))
    if isinstance(shape, NoneS):
        return VNONE
    if isinstance(shape, EnumS):
        if shape.ordinal:
            pos = [i for i, (_, pv) in enumerate(shape.members) if pv == pyv.value]
            return Val(shape, vint(pos[0]))
        return Val(shape, const_of_py(pyv.value, shape.value_shape))
    raise TypeError((pyv, shape))


def enum_value(v: Val) -> Val:
    """`.value` of an enum value"""
    s = v.shape
    if not s.ordinal:
        return v.d
    res = const_of_py(s.members[-1][1], s.value_shape)
    for i in range(len(s.members) - 2, -1, -1):
        res = ite(v.d.d == i, const_of_py(s.members[i][1], s.value_shape), res)
    return res


def enum_from_value(shape: EnumS, value: Val):
    """(member Val, z3 condition 'value is a member value')"""
    if not shape.ordinal:
        ev = Val(shape, coerce(value, shape.value_shape))
        return ev, wf(ev)
    conds = [raw_eq(coerce(value, shape.value_shape), const_of_py(pv, shape.value_shape)) for _, pv in shape.members]
    pos = z3.IntVal(-1)
    for i in range(len(conds) - 1, -1, -1):
        pos = z3.If(conds[i], z3.IntVal(i), pos)
    return Val(shape, vint(pos)), z3.Or(conds)


def wf(v: Val):
    """Type invariant of a value as a z3 Bool (enum membership, non-negative length, tags)."""
    s = v.shape
    if isinstance(s, (IntS, BoolS, RealS, StrS, TdS, NoneS, ConcS)):
        return z3.BoolVal(True)
    if isinstance(s, OptS):
        return z3.Or(v.d[0], wf(v.d[1]))
    if isinstance(s, TupS):
        return z3.And([wf(i) for i in v.d] or [z3.BoolVal(True)])
    if isinstance(s, RecS):
        return z3.And([wf(f) for f in v.d.values()] or [z3.BoolVal(True)])
    if isinstance(s, SeqS):
        return v.d[1] >= 0
    if isinstance(s, EnumS):
        if s.ordinal:
            return z3.And(v.d.d >= 0, v.d.d < len(s.members))
        return z3.Or([raw_eq(v.d, const_of_py(pv, s.value_shape)) for _, pv in s.members])
    if isinstance(s, UnionS):
        tag = v.d[0]
        return z3.And(tag >= 0, tag < len(s.alts),
                      *[z3.Implies(tag == i, wf(a)) for i, a in enumerate(v.d[1])])
    if isinstance(s, MapS):
        return z3.BoolVal(True)
    if isinstance(s, DictS):
        return v.d[1].d[1] >= 0
    if isinstance(s, ViewS):
        return z3.And(v.d[0] >= 0, v.d[1] >= 0)
    raise TypeError(s)


def raw_eq(a: Val, b: Val):
    """Leafwise equality of two values of the same shape (no Optional masking)."""
    assert a.shape == b.shape, (a.shape, b.shape)
    la, lb = leaves(a), leaves(b)
    return z3.And([x == y for x, y in zip(la, lb)] or [z3.BoolVal(True)])


# ---------------------------------------------------------------- coercion

class ShapeError(Exception):
    pass


def coerce(v: Val, shape: Shape) -> Val:
    """Represent v in `shape` (Optional/Union injection, int->float, tuple/record recursion)."""
    if v.shape == shape and not isinstance(shape, (TupS,)):
        return v
    vs = v.shape
    if isinstance(shape, OptS):
        if isinstance(vs, NoneS):
            return vnone_of(shape)
        if isinstance(vs, OptS):
            return Val(shape, (v.d[0], coerce(v.d[1], shape.inner)))
        return Val(shape, (z3.BoolVal(False), coerce(v, shape.inner)))
    if isinstance(shape, UnionS):
        if isinstance(vs, UnionS):
            raise ShapeError(f"union to union {vs} -> {shape}")
        for i, a in enumerate(shape.alts):
            try:
                inj = coerce(v, a) if _compatible(vs, a) else None
            except ShapeError:
                inj = None
            if inj is not None:
                alts = [inj if j == i else default(b) for j, b in enumerate(shape.alts)]
                return Val(shape, (z3.IntVal(i), alts))
        if isinstance(vs, OptS):
            # Optional[X] into Union[..., X, ..., None]
            none_i = next((j for j, a in enumerate(shape.alts) if isinstance(a, NoneS)), None)
            some_i = next((j for j, a in enumerate(shape.alts) if _compatible(vs.inner, a)), None)
            if none_i is not None and some_i is not None:
                alts = [coerce(v.d[1], b) if j == some_i else default(b)
                        for j, b in enumerate(shape.alts)]
                return Val(shape, (z3.If(v.d[0], z3.IntVal(none_i), z3.IntVal(some_i)), alts))
        raise ShapeError(f"cannot inject {vs} into {shape}")
    if isinstance(shape, RealS) and isinstance(vs, IntS):
        return Val(REAL, z3.ToReal(v.d))
    if isinstance(shape, TupS) and isinstance(vs, TupS) and len(vs.items) == len(shape.items):
        return Val(shape, [coerce(i, s) for i, s in zip(v.d, shape.items)])
    if isinstance(shape, SeqS) and isinstance(vs, SeqS):
        if vs.elem == shape.elem:
            return v
        if isinstance(vs.elem, NoneS) and isinstance(shape.elem, OptS):
            # [None] * n  as a list of Optional[...]
            e = vnone_of(shape.elem)
            arrs = [z3.K(z3.IntSort(), z3.simplify(l)) for l in leaves(e)]
            return Val(shape, (arrs, v.d[1]))
        if vs.elem is None or isinstance(vs.elem, NoneS) and z3.is_int_value(v.d[1]) and v.d[1].as_long() == 0:
            return vseq_empty(shape.elem)
    if isinstance(shape, IntS) and isinstance(vs, BoolS):
        return Val(INT, z3.If(v.d, 1, 0))
    if isinstance(vs, ViewS) and isinstance(shape, SeqS) and vs.base.shape == shape:
        return view_to_seq(v)
    if isinstance(shape, MapS) and isinstance(vs, ConcS):
        from .objects import PyMap
        if isinstance(v.d, PyMap) and not v.d.items and v.d.default is None:
            return map_empty(shape)
    if isinstance(shape, DictS) and isinstance(vs, ConcS):
        from .objects import PyMap
        if isinstance(v.d, PyMap) and not v.d.items and v.d.default is None:
            return Val(shape, (map_empty(shape.map), vseq_empty(shape.key)))
    if vs == shape:
        return v
    raise ShapeError(f"cannot coerce {vs} to {shape}")


def _compatible(vs: Shape, target: Shape) -> bool:
    if vs == target:
        return True
    if isinstance(target, TupS) and isinstance(vs, TupS) and len(vs.items) == len(target.items):
        return all(_compatible(a, b) or isinstance(b, OptS) for a, b in zip(vs.items, target.items))
    if isinstance(target, OptS) and (isinstance(vs, NoneS) or _compatible(vs, target.inner)):
        return True
    return False


def join_shape(a: Shape, b: Shape) -> Shape:
    """Least shape both a and b coerce to (for conditional expressions / merges)."""
    if a == b:
        return a
    if isinstance(a, NoneS) and isinstance(b, NoneS):
        return NONE
    if isinstance(a, NoneS):
        return b if isinstance(b, OptS) else OptS(b)
    if isinstance(b, NoneS):
        return a if isinstance(a, OptS) else OptS(a)
    if isinstance(a, OptS) or isinstance(b, OptS):
        ia = a.inner if isinstance(a, OptS) else a
        ib = b.inner if isinstance(b, OptS) else b
        return OptS(join_shape(ia, ib))
    if {type(a), type(b)} == {IntS, RealS}:
        return REAL
    if isinstance(a, TupS) and isinstance(b, TupS) and len(a.items) == len(b.items):
        return TupS([join_shape(x, y) for x, y in zip(a.items, b.items)])
    if isinstance(a, UnionS):
        return a
    if isinstance(b, UnionS):
        return b
    return UnionS([a, b])


def ite(c, a: Val, b: Val) -> Val:
    if z3.is_true(c):
        return a
    if z3.is_false(c):
        return b
    if isinstance(a.shape, ConcS) and isinstance(b.shape, ConcS) and a.d is b.d:
        return a
    s = join_shape(a.shape, b.shape)
    a, b = coerce(a, s), coerce(b, s)
    return from_leaves(s, [z3.If(c, x, y) for x, y in zip(leaves(a), leaves(b))])


# ---------------------------------------------------------------- sequences

def map_empty(shape: MapS) -> Val:
    ksort = shape.key.sorts()[0]
    pres = z3.K(ksort, z3.BoolVal(False))
    arrs = [z3.K(ksort, _default_leaf(srt)) for srt in shape.val.sorts()]
    return Val(shape, (pres, arrs))


def seq_len(v: Val):
    return v.d[1]


def seq_select(v: Val, i) -> Val:
    """Element at (already normalised, in-range) index i."""
    return from_leaves(v.shape.elem, [z3.Select(a, i) for a in v.d[0]])


def seq_store(v: Val, i, e: Val) -> Val:
    e = coerce(e, v.shape.elem)
    arrs = [z3.Store(a, i, l) for a, l in zip(v.d[0], leaves(e))]
    return Val(v.shape, (arrs, v.d[1]))


def seq_append(v: Val, e: Val) -> Val:
    e = coerce(e, v.shape.elem)
    arrs = [z3.Store(a, v.d[1], l) for a, l in zip(v.d[0], leaves(e))]
    return Val(v.shape, (arrs, v.d[1] + 1))


def seq_of(items, elem: Shape) -> Val:
    v = vseq_empty(elem)
    for it in items:
        v = seq_append(v, it)
    return Val(v.shape, (v.d[0], z3.IntVal(len(items))))


def seq_slice(v: Val, lo, hi) -> Val:
    """v[lo:hi] for normalised 0 <= lo <= hi <= len: a shifted view (lambda arrays)."""
    k = z3.Int(fresh_name("k"))
    arrs = [z3.Lambda([k], z3.Select(a, k + lo)) for a in v.d[0]]
    r = Val(v.shape, (arrs, hi - lo))
    r.view = (v, lo)
    return r


def concrete_int(z):
    z = z3.simplify(z)
    if z3.is_int_value(z):
        return z.as_long()
    return None
