"""Calls: builtins, assumed library contracts, repo functions via contracts, closures inline."""
from __future__ import annotations

import ast
import builtins
import collections
import collections.abc
import dataclasses
import datetime
import enum
import itertools
import logging
import re
import typing

import z3

from . import values as V
from .values import (Val, INT, BOOL, REAL, STR, TD, NONE, CONC, IntS, BoolS, RealS, StrS, TdS,
                     NoneS, OptS, TupS, RecS, SeqS, EnumS, UnionS, MapS, DictS, ConcS, VNONE)
from .objects import (Closure, LocalClass, PyMap, Obj, ExcInst, MatchObj, BoundMethod,
                      BuiltinMethod, GenExp, RangeObj, EnumerateObj, FilterObj, IsliceObj,
                      ItemsObj, RxSym, PYINT, DECOK, SymbolicFile, SuperProxy)
from .state import State, Env, OutOfSubset, BindingLost
from .source import key_of_function, class_key, live_module
from .engine import DeadPath, SpecFn, Outcome, FuncCtx, exc_class
from . import floats
from . import quant as Q

TD_MAX_SECONDS = 86400 * 999999999


def _optional_groups(pattern: str):
    """Indices of capture groups that may not participate in a match."""
    import re._parser as sre
    tree = sre.parse(pattern)
    opt = set()

    def walk(items, optional):
        for op, av in items:
            name = str(op)
            if name == "SUBPATTERN":
                g, _, _, sub = av
                if g is not None and optional:
                    opt.add(g)
                walk(sub, optional)
            elif name in ("MAX_REPEAT", "MIN_REPEAT", "POSSESSIVE_REPEAT"):
                lo, hi, sub = av
                walk(sub, optional or lo == 0)
            elif name == "BRANCH":
                for br in av[1]:
                    walk(br, True)
            elif name in ("ASSERT", "ASSERT_NOT", "ATOMIC_GROUP"):
                raise OutOfSubset("regex look-around")
    walk(tree, False)
    return opt


class CallsMixin:
    # ------------------------------------------------------------------ call entry points
    def e_Call(self, node, st):
        callee, args, kwargs = self.prepare_call(node, st)
        return self.finish_call(callee, args, kwargs, st, node)

    def prepare_call(self, node, st):
        fv = self.eval(node.func, st)
        args = []
        for a in node.args:
            if isinstance(a, ast.Starred):
                raise OutOfSubset("*args call")
            args.append(self.eval(a, st))
        kwargs = {}
        for k in node.keywords:
            v = self.eval(k.value, st)
            if k.arg is None:
                if isinstance(v.shape, ConcS) and isinstance(v.d, PyMap) and all(isinstance(x, str) for x in v.d.items):
                    kwargs.update(v.d.items)
                    kwargs["__starstar__"] = v
                    kwargs["__present__"] = dict(v.d.present)
                else:
                    raise OutOfSubset("**kwargs of non-concrete-key dict")
            else:
                kwargs[k.arg] = v
        return fv, args, kwargs

    def stmt_inline_target(self, callee: Val):
        """If the callee must be inlined at statement level return (closure-like, selfargs)."""
        if not isinstance(callee.shape, ConcS):
            return None
        o = callee.d
        if isinstance(o, Closure) and not self._is_expr_closure(o):
            if self.reg.lookup(self._closure_key(o), {}) is None:
                return o
        return None

    def _closure_key(self, c: Closure):
        return f"{c.module}:{c.qualname}"

    def _is_expr_closure(self, c: Closure):
        if isinstance(c.node, ast.Lambda):
            return True
        body = [s for s in c.node.body if not _is_docstring(s)]
        return len(body) == 1 and isinstance(body[0], ast.Return)

    def finish_call(self, fv: Val, args, kwargs, st, node=None) -> Val:
        if not isinstance(fv.shape, ConcS):
            raise OutOfSubset(f"call of non-concrete callee {fv.shape}")
        o = fv.d
        kwargs = dict(kwargs)
        starstar = kwargs.pop("__starstar__", None)
        present = kwargs.pop("__present__", None)
        if present:
            if isinstance(o, type) and dataclasses.is_dataclass(o):
                return self.instantiate_dataclass(o, args, kwargs, st, present=present)
            raise OutOfSubset("**kwargs with conditionally present keys")
        if isinstance(o, SpecFn):
            return o.fn(self, st, *args, **kwargs)
        if isinstance(o, BuiltinMethod):
            return self.call_builtin_method(o, args, kwargs, st)
        if isinstance(o, BoundMethod):
            return self.call_callable(o.func, [o.selfval] + args, kwargs, st)
        if isinstance(o, Closure):
            return self.call_closure(o, args, kwargs, st)
        return self.call_callable(o, args, kwargs, st)

    def call_callable(self, o, args, kwargs, st) -> Val:
        if isinstance(o, Closure):
            return self.call_closure(o, args, kwargs, st)
        if isinstance(o, (staticmethod, classmethod)):
            o = o.__func__
        if isinstance(o, typing.NewType):
            return args[0]
        if o is typing.cast:
            return args[1]
        if o is super:
            return self.b_super(args, kwargs, st)
        if o is type and len(args) == 1:
            return self.b_type(args, kwargs, st)
        if isinstance(o, type):
            return self.instantiate(o, args, kwargs, st)
        if hasattr(o, "__self__") and isinstance(getattr(o, "__self__"), type) and hasattr(o, "__func__"):
            # live bound classmethod
            return self.call_repo(o.__func__, [V.vconc(o.__self__)] + args, kwargs, st)
        if hasattr(o, "__self__") and isinstance(getattr(o, "__self__"), logging.Logger):
            return self.log_call(st)
        mod = getattr(o, "__module__", None) or ""
        if mod.startswith("chartparse"):
            return self.call_repo(o, args, kwargs, st)
        if hasattr(o, "__wrapped__") and (getattr(o.__wrapped__, "__module__", "") or "").startswith("chartparse"):
            self.ctx.assumptions.add("functools.lru_cache returns the wrapped function's value (memo unobservable: fxvc obligation)")
            return self.call_repo(o.__wrapped__, args, kwargs, st)
        name = getattr(o, "__name__", None)
        if name and getattr(builtins, name, None) is o:
            m = getattr(self, "b_" + name, None)
            if m is None:
                raise OutOfSubset(f"builtin {name}")
            return m(args, kwargs, st)
        if o is datetime.timedelta:
            return self.b_timedelta(args, kwargs, st)
        if o is itertools.islice:
            return self.b_islice(args, kwargs, st)
        if o is collections.defaultdict:
            return self.b_defaultdict(args, kwargs, st)
        if mod == "typing" or o in (typing.TypeVar,):
            if all(isinstance(a.shape, ConcS) or V.concrete_int(a.d) is not None
                   if not isinstance(a.shape, StrS) else z3.is_string_value(a.d) for a in args):
                return V.vconc(_Opaque("typing-object"))
        if all(isinstance(a.shape, ConcS) for a in list(args) + list(kwargs.values())) and mod in ("typing",):
            return V.vconc(o(*[a.d for a in args], **{k: v.d for k, v in kwargs.items()}))
        raise OutOfSubset(f"call of {o!r}")

    def log_call(self, st):
        w = st.lookup("_warnings")
        if w is not None:
            st.holder("_warnings").vars["_warnings"] = V.vint(w.d + 1)
        self.ctx.assumptions.add("logging calls have no effect on program state (modelled as a ghost counter)")
        return VNONE

    # ------------------------------------------------------------------ builtin methods
    def call_builtin_method(self, bm: BuiltinMethod, args, kwargs, st):
        n = bm.name
        sv = bm.selfval
        if n == "td.total_seconds":
            # (days*86400+seconds)*10**6+microseconds) / 10**6 : one correctly rounded division
            return V.vreal(self.ctx.fm.rn(z3.ToReal(sv.d) / 1000000, None))
        if n == "float.is_integer":
            return V.vbool(z3.IsInt(sv.d))
        if n.startswith("logger."):
            # only records at WARNING level or above are "reports" (C14: an unparsable line is reported
            # once); debug / info records are diagnostics without effect on the ghost counter.  (False
            # alarm found by benign commit BEN-R9B7-2, which adds logger.debug calls everywhere.)
            if n.split(".", 1)[1] in ("debug", "info", "log", "isEnabledFor", "getEffectiveLevel"):
                self.ctx.assumptions.add("logging below WARNING level has no effect on program state and is not a report")
                return VNONE
            return self.log_call(st)
        if n == "str.format":
            return V.fresh(STR, "fmt")
        if n == "str.join":
            # TypeError unless every item is a str: decided from the static shape of the argument
            a = args[0]
            items = self.static_items(a)
            if isinstance(a.shape, SeqS):
                ok = isinstance(a.shape.elem, StrS)
            elif items is not None:
                ok = all(isinstance(x.shape, StrS) for x in items)
            else:
                raise OutOfSubset("str.join over " + repr(a.shape))
            self.ctx.oblige("join-items-are-str", st, z3.BoolVal(ok), kind="safety")
            return V.fresh(STR, "joined")
        if n == "file.read":
            self.ctx.assumptions.add("fp.read() returns the whole text of the file")
            return V.fresh(STR, "text")
        if n == "str.splitlines":
            self.ctx.assumptions.add("str.splitlines() returns the lines of the text (no line contains a line break)")
            g = st.lookup("g_lines")           # a contract may name 'the lines of the text'
            if g is not None and isinstance(g.shape, SeqS):
                return g
            return V.fresh(SeqS(STR), "lines")
        if n == "pattern.match":
            pat: re.Pattern = sv.d
            if pat.flags & ~re.UNICODE:
                raise OutOfSubset("regex flags")
            rx = RxSym(pat.pattern, pat.groups)
            line = self.as_sym(args[0])
            if not isinstance(line.shape, StrS):
                raise OutOfSubset("match on non-str")
            self.ctx.assumptions.add("re: Pattern.match(s) is not None iff s is in the pattern's language; groups() is the leftmost-priority decomposition (rxvc proves the capture facts used here)")
            self.apply_rx_facts(rx, line.d)
            return V.vconc(MatchObj(rx, line.d, z3.Not(rx.match(line.d))))
        if n in ("match.groups", "match.group"):
            m: MatchObj = sv.d
            self.raise_side(st, "AttributeError", m.isnone)
            optional = _optional_groups(m.rx.pattern)

            def grp(i):
                g = V.vstr(m.rx.group[i](m.line))
                if i in optional:
                    return Val(OptS(STR), (m.rx.group_none[i](m.line), g))
                return g
            if n == "match.groups":
                return V.vtup([grp(i) for i in range(1, m.rx.ngroups + 1)])
            i = V.concrete_int(self.as_sym(args[0]).d)
            if i is None or not 1 <= i <= m.rx.ngroups:
                raise OutOfSubset("match.group index")
            return grp(i)
        if n == "dict.get" and isinstance(sv.shape, MapS):
            ms = sv.shape
            k = V.leaves(V.coerce(self.as_sym(args[0]), ms.key))[0]
            dflt = V.coerce(args[1] if isinstance(args[1].shape, ConcS) else self.as_sym(args[1]), ms.val) if len(args) > 1 else None
            if dflt is None:
                raise OutOfSubset("dict.get without default")
            stored = V.from_leaves(ms.val, [z3.Select(a, k) for a in sv.d[1]])
            return V.ite(z3.Select(sv.d[0], k), stored, dflt)
        if n == "dict.get" and isinstance(sv.shape, DictS):
            return self.call_builtin_method(BuiltinMethod(sv.d[0], "dict.get"), args, kwargs, st)
        if n == "dict.items":
            return V.vconc(ItemsObj(sv))
        if n == "dict.keys":
            return V.vconc(_Opaque("dict-keys"))
        if n == "dict.__getitem__":
            return self.pymap_get(sv, args[0], st)
        raise OutOfSubset(f"method {n}")

    def apply_rx_facts(self, rx: RxSym, line=None):
        """Capture facts proved by rxvc for the shipped pattern, as universally quantified
        axioms over all lines (triggered on the group term)."""
        key = ("rxfacts", rx.pattern)
        if key in self.ctx.spec_cache:
            return
        self.ctx.spec_cache[key] = True
        opt = _optional_groups(rx.pattern)
        for fact in self.reg.rx_facts.get(rx.pattern, []):
            g, kind = fact[0], fact[1]
            l = z3.String(V.fresh_name("rxl"))
            gv = rx.group[g](l)
            pre = rx.match(l)
            if g in opt:
                pre = z3.And(pre, z3.Not(rx.group_none[g](l)))
            if kind == "digits":
                body = z3.And(DECOK(gv), PYINT(gv) >= 0)
            elif kind == "range":
                body = z3.And(DECOK(gv), PYINT(gv) >= fact[2], PYINT(gv) <= fact[3])
            elif kind == "oneof":
                body = z3.Or([gv == z3.StringVal(s) for s in fact[2]])
            else:
                continue
            self.ctx.axioms.append(z3.ForAll([l], z3.Implies(pre, body), patterns=[gv]))
            self.ctx.notes.append(f"rx-fact used: {rx.pattern!r} group {g} {kind}")

    # ------------------------------------------------------------------ builtins
    def b_super(self, args, kwargs, st):
        if args:
            raise OutOfSubset("super(...) with arguments")
        fq = self.fctx.qualname
        if "." not in fq:
            raise OutOfSubset("super() outside a method")
        clsq = fq.rsplit(".", 1)[0]
        cls = self.live_class(f"{self.fctx.module}:{clsq}")
        selfv = st.lookup("self")
        if selfv is None:
            raise OutOfSubset("super() without self")
        return V.vconc(SuperProxy(cls, selfv))

    def b_type(self, args, kwargs, st):
        v = args[0]
        if isinstance(v.shape, RecS):
            return V.vconc(self.live_class(v.shape.key))
        raise OutOfSubset("type() of " + repr(v.shape))

    def b_len(self, args, kwargs, st):
        v = self.as_sym(args[0])
        s = v.shape
        if isinstance(s, SeqS):
            return V.vint(v.d[1])
        if isinstance(s, TupS):
            return V.vint(len(v.d))
        if isinstance(s, StrS):
            return V.vint(z3.Length(v.d))
        if isinstance(s, RecS):
            ln = self.find_method(self.live_class(s.key), "__len__")
            if ln is not None:
                return self.call_repo(ln, [v], {}, st)
        if isinstance(s, ConcS):
            o = v.d
            if isinstance(o, PyMap) and o.default is None:
                return V.vint(len(o.items))
            if isinstance(o, (tuple, list, dict, str)):
                return V.vint(len(o))
        if isinstance(s, OptS):
            self.raise_side(st, "TypeError", v.d[0])
            return self.b_len([v.d[1]], kwargs, st)
        raise OutOfSubset(f"len of {s}")

    def b_abs(self, args, kwargs, st):
        v = self.as_sym(args[0])
        if isinstance(v.shape, RealS):
            return V.vreal(floats.rabs(v.d))
        if isinstance(v.shape, TdS):
            return V.vtd(z3.If(v.d >= 0, v.d, -v.d))
        x = self._int(v)
        return V.vint(z3.If(x >= 0, x, -x))

    def b_round(self, args, kwargs, st):
        v = self.as_sym(args[0])
        nd = None
        if len(args) > 1:
            nd = V.concrete_int(self.as_sym(args[1]).d)
            if nd is None:
                raise OutOfSubset("round ndigits symbolic")
        self.ctx.assumptions.add("round(): nearest, ties to even; round(x, n) = correctly rounded float of the n-decimal rounding of x")
        if isinstance(v.shape, IntS):
            return v
        if not isinstance(v.shape, RealS):
            raise OutOfSubset(f"round of {v.shape}")
        if nd is None:
            return V.vint(self.ctx.fm.round0(v.d))
        return V.vreal(self.ctx.fm.round_ndigits(v.d, nd))

    def b_int(self, args, kwargs, st):
        v = self.as_sym(args[0])
        s = v.shape
        if isinstance(s, (IntS, BoolS)):
            return V.vint(self._int(v))
        if isinstance(s, OptS):
            self.raise_side(st, "TypeError", v.d[0])
            return self.b_int([v.d[1]], kwargs, st)
        if isinstance(s, NoneS):
            self.raise_side(st, "TypeError", z3.BoolVal(True))
            raise DeadPath()
        if isinstance(s, RealS):
            # truncation toward zero
            fl = z3.ToInt(v.d)
            return V.vint(z3.If(v.d >= 0, fl, z3.If(z3.ToReal(fl) == v.d, fl, fl + 1)))
        if isinstance(s, StrS):
            self.ctx.assumptions.add("int(s): ValueError unless s is a decimal literal (DECOK); value PYINT(s); total on \\d+ strings")
            self.raise_side(st, "ValueError", z3.Not(DECOK(v.d)))
            return V.vint(PYINT(v.d))
        raise OutOfSubset(f"int() of {s}")

    def b_str(self, args, kwargs, st):
        v = self.as_sym(args[0]) if args else V.vstr("")
        if isinstance(v.shape, StrS):
            return v
        return V.fresh(STR, "str")

    def b_isinstance(self, args, kwargs, st):
        v = args[0]
        t = args[1]
        if not isinstance(t.shape, ConcS):
            raise OutOfSubset("isinstance with symbolic type")
        types = t.d if isinstance(t.d, tuple) else (t.d,)
        return V.vbool(self.isinstance_cond(self.as_sym(v) if not self._keep_conc(v) else v, types))

    def isinstance_cond(self, v: Val, types):
        s = v.shape

        def sub(pycls):
            return any(isinstance(t, type) and issubclass(pycls, t) for t in types)
        if isinstance(s, IntS):
            return z3.BoolVal(sub(int))
        if isinstance(s, BoolS):
            return z3.BoolVal(sub(bool))
        if isinstance(s, RealS):
            return z3.BoolVal(sub(float))
        if isinstance(s, StrS):
            return z3.BoolVal(sub(str))
        if isinstance(s, TdS):
            return z3.BoolVal(sub(datetime.timedelta))
        if isinstance(s, NoneS):
            return z3.BoolVal(sub(type(None)))
        if isinstance(s, SeqS):
            return z3.BoolVal(sub(list))
        if isinstance(s, TupS):
            return z3.BoolVal(sub(tuple))
        if isinstance(s, (RecS, EnumS)):
            return z3.BoolVal(sub(self.live_class(s.key)))
        if isinstance(s, (MapS, DictS)):
            return z3.BoolVal(sub(dict))
        if isinstance(s, OptS):
            return z3.If(v.d[0], z3.BoolVal(sub(type(None))), self.isinstance_cond(v.d[1], types))
        if isinstance(s, UnionS):
            return z3.Or([z3.And(v.d[0] == i, self.isinstance_cond(a, types)) for i, a in enumerate(v.d[1])])
        if isinstance(s, ConcS):
            if isinstance(v.d, (Obj,)):
                return z3.BoolVal(sub(v.d.cls))
            if isinstance(v.d, (Closure, LocalClass, MatchObj, PyMap)):
                raise OutOfSubset("isinstance on internal object")
            return z3.BoolVal(isinstance(v.d, types))
        raise OutOfSubset(f"isinstance on {s}")

    def b_issubclass(self, args, kwargs, st):
        a, b = args
        if not (isinstance(a.shape, ConcS) and isinstance(b.shape, ConcS)):
            raise OutOfSubset("issubclass symbolic")
        if isinstance(b.d, LocalClass):
            if not b.d.is_protocol:
                raise OutOfSubset("issubclass with local non-protocol class")
            self.ctx.assumptions.add("typing: issubclass(C, runtime_checkable Protocol) iff C has all protocol members")
            return V.vbool(all(hasattr(a.d, m) for m in b.d.method_names))
        return V.vbool(issubclass(a.d, b.d))

    def b_hasattr(self, args, kwargs, st):
        v, n = args
        name = n.d.as_string() if isinstance(n.shape, StrS) and z3.is_string_value(n.d) else None
        if name is None:
            raise OutOfSubset("hasattr symbolic name")
        if isinstance(v.shape, RecS):
            return V.vbool(name in v.shape.fields or hasattr(self.live_class(v.shape.key), name))
        if isinstance(v.shape, ConcS) and isinstance(v.d, Obj):
            return V.vbool(name in v.d.attrs or hasattr(v.d.cls, name))
        if isinstance(v.shape, ConcS):
            return V.vbool(hasattr(v.d, name))
        raise OutOfSubset("hasattr")

    def b_dict(self, args, kwargs, st):
        if args or kwargs:
            raise OutOfSubset("dict(...) with arguments")
        return V.vconc(PyMap())

    def b_list(self, args, kwargs, st):
        if not args:
            return Val(SeqS(None), ([], z3.IntVal(0)))
        v = args[0]
        if isinstance(v.shape, SeqS):
            return v
        if isinstance(v.shape, ConcS) and isinstance(v.d, IsliceObj):
            return self.islice_to_seq(v.d)
        if isinstance(v.shape, ConcS) and isinstance(v.d, _Opaque):
            return v
        raise OutOfSubset(f"list() of {v.shape}")

    def islice_to_seq(self, o: IsliceObj):
        n = o.seq.d[1]

        def clampn(i):
            return z3.If(i > n, n, i)
        lo, hi = clampn(o.lo), clampn(o.hi)
        hi = z3.If(hi >= lo, hi, lo)
        return V.seq_slice(o.seq, z3.simplify(lo), z3.simplify(hi))

    def b_tuple(self, args, kwargs, st):
        if not args:
            return V.vtup([])
        v = args[0]
        if isinstance(v.shape, TupS):
            return v
        if isinstance(v.shape, SeqS):
            n = V.concrete_int(v.d[1])
            if n is None:
                raise OutOfSubset("tuple() of list of symbolic length")
            return V.vtup([V.seq_select(v, z3.IntVal(i)) for i in range(n)])
        if isinstance(v.shape, ConcS) and isinstance(v.d, GenExp):
            items = self.unroll_gen(v.d, st)
            if any(c is not None for c, _ in items):
                raise OutOfSubset("tuple() of filtered generator")
            return V.vtup([e for _, e in items])
        if isinstance(v.shape, ConcS) and isinstance(v.d, tuple):
            return v
        raise OutOfSubset(f"tuple() of {v.shape}")

    def b_range(self, args, kwargs, st):
        a = [self._int(self.as_sym(x)) for x in args]
        if len(a) == 1:
            return V.vconc(RangeObj(z3.IntVal(0), a[0]))
        if len(a) == 2:
            return V.vconc(RangeObj(a[0], a[1]))
        raise OutOfSubset("range with step")

    def b_enumerate(self, args, kwargs, st):
        if len(args) != 1 or not isinstance(args[0].shape, SeqS):
            raise OutOfSubset("enumerate")
        return V.vconc(EnumerateObj(args[0]))

    def b_filter(self, args, kwargs, st):
        fn, seq = args
        if not isinstance(seq.shape, SeqS):
            raise OutOfSubset("filter over non-list")
        return V.vconc(FilterObj(fn, seq))

    def b_islice(self, args, kwargs, st):
        seq = args[0]
        if not isinstance(seq.shape, SeqS) or len(args) != 3:
            raise OutOfSubset("islice form")
        self.ctx.assumptions.add("itertools.islice(list, a, b) yields list[a:b] (a None = 0); ValueError for negative bounds")
        lo, hi = self.as_sym(args[1]), self.as_sym(args[2])

        def bound(v, dflt):
            if isinstance(v.shape, NoneS):
                return dflt
            if isinstance(v.shape, OptS):
                self.raise_side(st, "ValueError", z3.And(z3.Not(v.d[0]), v.d[1].d < 0))
                return z3.If(v.d[0], dflt, v.d[1].d)
            x = self._int(v)
            self.raise_side(st, "ValueError", x < 0)
            return x
        return V.vconc(IsliceObj(seq, bound(lo, z3.IntVal(0)), bound(hi, seq.d[1])))

    def b_defaultdict(self, args, kwargs, st):
        if len(args) == 1 and isinstance(args[0].shape, ConcS) and args[0].d is list:
            return V.vconc(PyMap(default=lambda k: V.vseq_empty(self.shape_of_class(k)), kind="defaultdict(list)"))
        raise OutOfSubset("defaultdict form")

    def b_timedelta(self, args, kwargs, st):
        self.ctx.assumptions.add("datetime.timedelta(seconds=f) = TD(f) microseconds: |TD(f)-1e6 f| <= 1/2+2**-32, monotone, sign preserving; timedelta arithmetic is exact; no overflow below 10**9 days (not checked)")
        if len(args) == 1 and not kwargs:
            d = V.concrete_int(self.as_sym(args[0]).d)
            if d == 0:
                return V.vtd(0)
            raise OutOfSubset("timedelta(days)")
        if set(kwargs) == {"seconds"} and not args:
            v = self.as_sym(kwargs["seconds"])
            if isinstance(v.shape, RealS):
                return V.vtd(self.ctx.fm.td(v.d))
            return V.vtd(self._int(v) * 1000000)
        if set(kwargs) == {"microseconds"} and not args:
            v = self.as_sym(kwargs["microseconds"])
            if isinstance(v.shape, IntS):
                return V.vtd(v.d)
        raise OutOfSubset("timedelta form")

    # -- generators -----------------------------------------------------------------
    def gen_parts(self, g: GenExp):
        node = g.node
        if len(node.generators) != 1 or node.generators[0].is_async:
            raise OutOfSubset("multi-clause generator")
        gen = node.generators[0]
        return node.elt, gen.target, gen.iter, gen.ifs

    def unroll_gen(self, g: GenExp, st):
        """For an iterable of static length: list of (cond or None, element value)."""
        elt, target, it, ifs = self.gen_parts(g)
        sub = st.sub({}, g.env)
        itv = self.eval(it, sub)
        items = self.static_items(itv, sub)
        if items is None:
            return None
        out = []
        for item in items:
            self.bind_target(target, item, sub)
            conds = [self.truth(self.eval(c, sub), sub) for c in ifs]
            c = (z3.And(conds) if len(conds) > 1 else conds[0]) if conds else None
            if c is not None:
                sub.guards.append(c)
            e = self.eval(elt, sub)
            if c is not None:
                sub.guards.pop()
            out.append((c, e))
        st.pc = sub.pc
        return out

    def static_items(self, itv: Val, st=None):
        if isinstance(itv.shape, UnionS) and st is not None:
            tups = [i for i, a in enumerate(itv.shape.alts) if isinstance(a, TupS)]
            others = [a for a in itv.shape.alts if not isinstance(a, TupS)]
            if len(tups) == 1 and all(isinstance(a, (IntS, RealS, BoolS, NoneS)) for a in others):
                # iterating an int / None raises TypeError
                self.raise_side(st, "TypeError", itv.d[0] != tups[0])
                return list(itv.d[1][tups[0]].d)
        if isinstance(itv.shape, TupS):
            return list(itv.d)
        if isinstance(itv.shape, ConcS) and isinstance(itv.d, ItemsObj) and isinstance(itv.d.mapval.shape, ConcS) \
                and isinstance(itv.d.mapval.d, PyMap) and not itv.d.mapval.d.present and itv.d.mapval.d.default is None:
            return [V.vtup([V.vstr(k) if isinstance(k, str) else V.vconc(k), val]) for k, val in itv.d.mapval.d.items.items()]
        if isinstance(itv.shape, ConcS) and isinstance(itv.d, (tuple, list)):
            return [self.lift(x) for x in itv.d]
        if isinstance(itv.shape, SeqS):
            n = V.concrete_int(itv.d[1])
            if n is not None and n <= 16:
                return [V.seq_select(itv, z3.IntVal(i)) for i in range(n)]
        if isinstance(itv.shape, UnionS) or isinstance(itv.shape, OptS):
            return None
        return None

    def quantify_gen(self, g: GenExp, st):
        """For a generator over a symbolic-length list: (n, body) where body(k) evaluates the
        `if` conditions and the element expression for index k and returns (cond, elt Val)."""
        elt, target, it, ifs = self.gen_parts(g)
        sub0 = st.sub({}, g.env)
        itv = self.eval(it, sub0)
        if not isinstance(itv.shape, SeqS):
            raise OutOfSubset(f"generator over {itv.shape}")

        def body(k):
            sub = st.sub({}, g.env)
            rng = z3.And(k >= 0, k < itv.d[1])
            item = V.seq_select(itv, k)
            sub.pc = sub.pc + [rng, V.wf(item)]
            n_pc = len(sub.pc)
            n_side = len(self.side)
            self.bind_target(target, item, sub)
            conds = [self.truth(self.eval(c, sub), sub) for c in ifs]
            c = (z3.And(conds) if len(conds) > 1 else conds[0]) if conds else z3.BoolVal(True)
            sub.guards.append(c)
            e = self.eval(elt, sub)
            sub.guards.pop()
            if len(self.side) > n_side:
                del self.side[n_side:]
                raise OutOfSubset("possible exception inside a generator over a symbolic list")
            if len(sub.pc) != n_pc:
                # a callee's postcondition was assumed under the binder: its result would have
                # to be a function of k
                raise OutOfSubset("contract call inside a generator over a symbolic list")
            return c, e
        return itv.d[1], body

    def b_any(self, args, kwargs, st):
        return self._anyall(args, st, True)

    def b_all(self, args, kwargs, st):
        return self._anyall(args, st, False)

    def _anyall(self, args, st, is_any):
        v = args[0]
        if isinstance(v.shape, ConcS) and isinstance(v.d, GenExp):
            items = self.unroll_gen(v.d, st)
            if items is not None:
                cl = []
                for c, e in items:
                    t = self.truth(self.as_sym(e), st)
                    if is_any:
                        cl.append(t if c is None else z3.And(c, t))
                    else:
                        cl.append(t if c is None else z3.Implies(c, t))
                return V.vbool((z3.Or if is_any else z3.And)(cl or [z3.BoolVal(not is_any)]))
            n, body = self.quantify_gen(v.d, st)

            def fk(k):
                c, e = body(k)
                t = self.truth(self.as_sym(e), st)
                return z3.And(c, t) if is_any else z3.Implies(c, t)
            return V.vbool((Q.exists if is_any else Q.forall)(self, z3.IntVal(0), n, fk, "gk"))
        items = self.static_items(self.as_sym(v))
        if items is None:
            raise OutOfSubset("any/all over symbolic list")
        cl = [self.truth(e, st) for e in items]
        return V.vbool((z3.Or if is_any else z3.And)(cl or [z3.BoolVal(not is_any)]))

    def b_sum(self, args, kwargs, st):
        v = args[0]
        if len(args) > 1:
            raise OutOfSubset("sum with start")
        if isinstance(v.shape, ConcS) and isinstance(v.d, GenExp):
            items = self.unroll_gen(v.d, st)
            if items is not None:
                tot = z3.IntVal(0)
                for c, e in items:
                    x = self._int(self.as_sym(e))
                    tot = tot + (x if c is None else z3.If(c, x, 0))
                return V.vint(tot)
            n, body = self.quantify_gen(v.d, st)

            def term(k):
                c, e = body(k)
                return z3.If(c, self._int(self.as_sym(e)), 0)
            return V.vint(self.sum_spec(n, term))
        items = self.static_items(self.as_sym(v))
        if items is None:
            raise OutOfSubset("sum over symbolic list")
        tot = z3.IntVal(0)
        for e in items:
            tot = tot + self._int(e)
        return V.vint(tot)

    def sum_spec(self, n, term):
        """SUM_{k<n} term(k) as an axiomatised recursive function of n."""
        if self.finite is not None:
            self.ctx.finite_assumptions.append(n <= self.finite + 1)
            tot = z3.IntVal(0)
            for i in range(0, self.finite + 1):
                tot = tot + z3.If(i < n, term(z3.IntVal(i)), 0)
            return tot
        # one function symbol per summand (up to simplification), so that the same count
        # written twice (in the code and in a contract) is the same term
        K = z3.Int("SUMK")
        key = ("sum", z3.simplify(term(K)).sexpr())
        f = self.ctx.spec_cache.get(key)
        if f is None:
            f = z3.Function(V.fresh_name("SUM"), z3.IntSort(), z3.IntSort())
            self.ctx.spec_cache[key] = f
            j = z3.Int(V.fresh_name("sj"))
            self.ctx.axioms.append(f(0) == 0)
            self.ctx.axioms.append(z3.ForAll([j], z3.Implies(j >= 0, f(j + 1) == f(j) + term(j)), patterns=[f(j + 1)]))
            chk = z3.Solver()
            chk.set("timeout", 1000)
            chk.add(term(K) < 0)
            nonneg = chk.check() == z3.unsat
            chk = z3.Solver()
            chk.set("timeout", 1000)
            chk.add(term(K) > 1)
            le1 = chk.check() == z3.unsat
            if nonneg:      # every summand is non-negative: so is every prefix sum
                self.ctx.axioms.append(z3.ForAll([j], z3.Implies(j >= 0, f(j) >= 0), patterns=[f(j)]))
            if le1:         # every summand is at most 1: a prefix sum is at most its length
                self.ctx.axioms.append(z3.ForAll([j], z3.Implies(j >= 0, f(j) <= j), patterns=[f(j)]))
            self.ctx.spec_cache[("sumb", f.get_id())] = (nonneg, le1)
            self.ctx.sum_defs.append((f, term))
        nonneg, le1 = self.ctx.spec_cache.get(("sumb", f.get_id()), (False, False))
        if nonneg:
            self.ctx.axioms.append(z3.Implies(n >= 0, f(n) >= 0))      # ground instances
        if le1:
            self.ctx.axioms.append(z3.Implies(n >= 0, f(n) <= n))
        return f(n)

    def b_max(self, args, kwargs, st):
        return self._minmax(args, kwargs, st, True)

    def b_min(self, args, kwargs, st):
        return self._minmax(args, kwargs, st, False)

    def _minmax(self, args, kwargs, st, is_max):
        key = kwargs.get("key")
        if len(args) == 1:
            v = args[0]
            if isinstance(v.shape, ConcS) and isinstance(v.d, GenExp):
                items = self.unroll_gen(v.d, st)
                if items is None:
                    return self._max_gen(v.d, st, is_max)
            else:
                sv = self.as_sym(v)
                its = self.static_items(sv)
                if its is None:
                    if isinstance(sv.shape, SeqS):
                        return self._max_seq(sv, key, st, is_max)
                    raise OutOfSubset("max over symbolic iterable")
                items = [(None, e) for e in its]
        else:
            items = [(None, self.as_sym(a)) for a in args]
        if key is not None:
            raise OutOfSubset("max(key=) over static items")
        # fold
        anyc = z3.Or([c if c is not None else z3.BoolVal(True) for c, _ in items] or [z3.BoolVal(False)])
        self.raise_side(st, "ValueError", z3.Not(anyc))
        have = z3.BoolVal(False)
        best = None
        for c, e in items:
            e = self.as_sym(e)
            if isinstance(e.shape, OptS):
                # element known non-None under its condition
                e = e.d[1]
            x = e
            if best is None:
                best = x
                have = c if c is not None else z3.BoolVal(True)
                continue
            better = self.compare(ast.Gt() if is_max else ast.Lt(), x, best, st)
            take = z3.Or(z3.Not(have), better)
            if c is not None:
                take = z3.And(c, take)
            best = V.ite(take, x, best)
            have = z3.Or(have, c if c is not None else z3.BoolVal(True))
        return best

    def _max_gen(self, g: GenExp, st, is_max):
        """max/min of a generator over a symbolic-length list: the element at a fresh index j
        that passes the filter and dominates every other passing element."""
        n, body = self.quantify_gen(g, st)
        j = z3.Int(V.fresh_name("argmax"))
        cj, ej = body(j)
        ej = self.as_sym(ej)
        anyc = Q.exists(self, z3.IntVal(0), n, lambda k: body(k)[0], "mg")
        self.raise_side(st, "ValueError", z3.Not(anyc))
        ge = ast.GtE() if is_max else ast.LtE()
        st.assume(z3.And(j >= 0, j < n, cj))
        st.assume(Q.forall(self, z3.IntVal(0), n, lambda k: z3.Implies(body(k)[0], self.compare(ge, ej, self.as_sym(body(k)[1]), st)), "mg"))
        return ej

    def _max_seq(self, seq: Val, key, st, is_max):
        n = seq.d[1]
        self.raise_side(st, "ValueError", n <= 0)
        j = z3.Int(V.fresh_name("argmax"))

        def keyof(i):
            e = V.seq_select(seq, i)
            if key is None:
                return e
            if not (isinstance(key.shape, ConcS) and isinstance(key.d, Closure)):
                raise OutOfSubset("max key not a lambda")
            return self.as_sym(self.call_closure(key.d, [e], {}, st))
        kj = keyof(j)
        gt = ast.Gt() if is_max else ast.Lt()
        ge = ast.GtE() if is_max else ast.LtE()
        st.assume(z3.And(j >= 0, j < n))
        st.assume(Q.forall(self, z3.IntVal(0), n, lambda k: self.compare(ge, kj, keyof(k), st), "mk"))
        st.assume(Q.forall(self, z3.IntVal(0), j, lambda k: self.compare(gt, kj, keyof(k), st), "mk"))
        e = V.seq_select(seq, j)
        st.assume(V.wf(e))
        return e

    def b_next(self, args, kwargs, st):
        v = args[0]
        if len(args) != 1 or not (isinstance(v.shape, ConcS) and isinstance(v.d, GenExp)):
            raise OutOfSubset("next form")
        items = self.unroll_gen(v.d, st)
        if items is None:
            raise OutOfSubset("next over symbolic list")
        anyc = z3.Or([c if c is not None else z3.BoolVal(True) for c, _ in items] or [z3.BoolVal(False)])
        self.raise_side(st, "StopIteration", z3.Not(anyc))
        res = None
        for c, e in reversed(items):
            e = self.as_sym(e)
            res = e if res is None else (e if c is None else V.ite(c, e, res))
        return res

    # ------------------------------------------------------------------ instantiation
    def instantiate(self, cls, args, kwargs, st):
        if issubclass(cls, BaseException):
            return V.vconc(ExcInst(cls, tuple(args)))
        if issubclass(cls, enum.Enum):
            sh = self.shape_of_class(cls)
            ev, ok = V.enum_from_value(sh, self.as_sym(args[0]))
            self.raise_side(st, "ValueError", z3.Not(ok))
            return ev
        if cls is dict:
            return self.b_dict(args, kwargs, st)
        if cls is list:
            return self.b_list(args, kwargs, st)
        if cls is tuple:
            return self.b_tuple(args, kwargs, st)
        if cls is int:
            return self.b_int(args, kwargs, st)
        if cls is str:
            return self.b_str(args, kwargs, st)
        if cls is range:
            return self.b_range(args, kwargs, st)
        if cls is enumerate:
            return self.b_enumerate(args, kwargs, st)
        if cls is filter:
            return self.b_filter(args, kwargs, st)
        if cls is datetime.timedelta:
            return self.b_timedelta(args, kwargs, st)
        if cls is itertools.islice:
            return self.b_islice(args, kwargs, st)
        if cls is collections.defaultdict:
            return self.b_defaultdict(args, kwargs, st)
        if cls is typing.TypeVar:
            return V.vconc(_Opaque("TypeVar"))
        if not cls.__module__.startswith("chartparse"):
            raise OutOfSubset(f"instantiate {cls!r}")
        if dataclasses.is_dataclass(cls):
            return self.instantiate_dataclass(cls, args, kwargs, st)
        model = self.reg.modeled_classes.get(class_key(cls))
        if model is not None:
            return model(self, cls, args, kwargs, st)
        init = self.find_method(cls, "__init__")
        if init is None:
            raise OutOfSubset(f"class {cls.__name__} without __init__")
        obj = self.inline_init(init, Obj(cls), args, kwargs, st)
        ov = V.vconc(obj)
        sh = self.reg.class_shapes.get(class_key(cls))
        if isinstance(sh, RecS):
            if set(obj.attrs) != set(sh.fields):
                raise BindingLost(f"{cls.__name__}.__init__ sets {sorted(obj.attrs)} but shape has {sorted(sh.fields)}")
            return V.vrec(sh, {k: self.as_sym(v) for k, v in obj.attrs.items()})
        return ov

    def inline_init(self, init, obj, args, kwargs, st):
        """Run a repo __init__ on an object under construction; returns the final object."""
        key = key_of_function(init)
        info = self.idx.funcs.get(key)
        if info is None:
            raise BindingLost(f"function {key} not found in source")
        self.fstack.append(self.make_fctx(info.module, info.qualname, info.node))
        try:
            bound = self.bind_args(info.node, [V.vconc(obj)] + list(args), kwargs, st=st)
            saved = st.cur
            lvl = st.push(bound, None)
            outs = self.exec_block(info.node.body, st)
        finally:
            self.fstack.pop()
        normal = [o for o in outs if o.kind in ("fall", "return")]
        for o in outs:
            if o.kind == "raise":
                if o.st is st:
                    o.st = st.copy()        # st is overwritten with the normal path below
                o.st.cur = saved
                self.side.append(o)
        if len(normal) != 1:
            raise OutOfSubset(f"__init__ of {obj.cls.__name__} has {len(normal)} normal paths")
        o = normal[0]
        final = o.st.levels[lvl].vars["self"]
        st.pc, st.guards, st.levels = o.st.pc, o.st.guards, o.st.levels
        st.cur = saved
        return final.d

    def instantiate_dataclass(self, cls, args, kwargs, st, present=None):
        sh = self.shape_of_class(cls)
        flds = dataclasses.fields(cls)
        names = [f.name for f in flds]
        # fields with a default that the shape does not mention are constants of the class
        # (the `_regex: Final[str] = ...` pattern attributes); they must not be passed explicitly
        const = [f.name for f in flds if f.name not in sh.fields and f.default is not dataclasses.MISSING]
        if set(names) - set(const) != set(sh.fields) or any(k in const for k in kwargs):
            raise BindingLost(f"dataclass {cls.__name__} fields {names} differ from declared shape {list(sh.fields)}")
        flds = [f for f in flds if f.name not in const]
        vals = {}
        pos = [f for f in flds if f.init and not f.kw_only]
        if len(args) > len(pos):
            raise OutOfSubset("too many positional args")
        for f, a in zip(pos, args):
            vals[f.name] = a
        for k, v in kwargs.items():
            if k not in names:
                self.raise_side(st, "TypeError", z3.BoolVal(True))
                raise DeadPath()
            vals[k] = v
        for f in flds:
            if present and f.name in present and f.name in vals:
                # the keyword is passed only on some paths: otherwise the default applies
                if f.default is dataclasses.MISSING:
                    self.raise_side(st, "TypeError", z3.Not(present[f.name]))
                else:
                    sh_f = sh.fields[f.name]
                    vals[f.name] = V.ite(present[f.name], V.coerce(self.as_sym(vals[f.name]), sh_f),
                                         V.coerce(self.as_sym(self.lift(f.default)), sh_f))
            if f.name not in vals:
                if f.default is not dataclasses.MISSING:
                    vals[f.name] = self.lift(f.default)
                elif f.default_factory is not dataclasses.MISSING:
                    raise OutOfSubset("default_factory")
                else:
                    self.raise_side(st, "TypeError", z3.BoolVal(True))
                    raise DeadPath()
        try:
            rec = V.vrec(sh, {k: self.as_sym(v) for k, v in vals.items()})
        except V.ShapeError as e:
            raise OutOfSubset(f"constructing {cls.__name__}: {e}")
        pi = self.find_method(cls, "__post_init__")
        if pi is not None:
            self.call_repo(pi, [rec], {}, st)
        return rec

    # ------------------------------------------------------------------ repo functions
    def bind_args(self, fnode, args, kwargs, live_fn=None, closure: Closure = None, st=None):
        a = fnode.args
        params = [p.arg for p in a.posonlyargs + a.args]
        bound = {}
        if len(args) > len(params):
            raise OutOfSubset("too many positional arguments")
        for p, v in zip(params, args):
            bound[p] = v
        kwonly = [p.arg for p in a.kwonlyargs]
        for k, v in kwargs.items():
            if k in bound or (k not in params and k not in kwonly):
                raise OutOfSubset(f"bad keyword {k}")
            bound[k] = v
        # defaults
        pos_defaults = a.defaults
        dparams = params[len(params) - len(pos_defaults):] if pos_defaults else []
        for p, dnode in zip(dparams, pos_defaults):
            if p not in bound:
                bound[p] = self.eval_default(dnode, closure, st)
        for p, dnode in zip(kwonly, a.kw_defaults):
            if p not in bound and dnode is not None:
                bound[p] = self.eval_default(dnode, closure, st)
        missing = [p for p in params + kwonly if p not in bound]
        if missing:
            raise OutOfSubset(f"missing arguments {missing}")
        return bound

    def eval_default(self, dnode, closure, st):
        if isinstance(dnode, ast.Constant):
            return self.lift(dnode.value)
        if closure is not None:
            return self.eval(dnode, st.sub({}, closure.env))
        return self.eval(dnode, State({}, []))

    def call_repo(self, fn, args, kwargs, st, force_inline=False) -> Val:
        key = key_of_function(fn)
        if key is None:
            raise OutOfSubset(f"cannot locate {fn!r}")
        info = self.idx.funcs.get(key)
        if info is None:
            if "<lambda>" in key:
                return self.call_live_lambda(fn, args, kwargs, st)
            raise BindingLost(f"function {key} not found in source")
        self.fstack.append(FuncCtx(info.module, info.qualname))
        try:
            bound = self.bind_args(info.node, args, kwargs, st=st)
        finally:
            self.fstack.pop()
        conc = {p: v.d for p, v in bound.items() if isinstance(v.shape, ConcS)}
        c = self.reg.lookup(key, conc, {p: self.as_sym(v) for p, v in bound.items()},
                            mode=self.callee_mode(key))
        if c is not None and not c.inline and not force_inline:
            return self.apply_contract(c, bound, st)
        if c is None and not force_inline and key not in self.reg.inline_ok:
            if self.reg.contracts.get(key):
                # the function is under contract but no instance fits this call site
                raise OutOfSubset(f"no contract for callee {key} (conc args {sorted(conc)})")
            # a package function without any contract (an extracted helper): its real body is
            # executed in place (depth-limited; a loop in it still needs a sidecar invariant)
            self.ctx.notes.append(f"callee {key} has no contract: body inlined")
        from .stmts import ownership_violations
        bad = ownership_violations(info.node, info.module)
        if bad:
            # an inlined body that updates its parameter (or a global) in place would only update
            # the callee's own binding in this value model
            raise OutOfSubset(f"inlined callee {key}: ownership: " + "; ".join(bad))
        clo = Closure(info.node, None, info.qualname, info.module)
        return self.inline_expr_closure(clo, bound, st, allow_stmts=True)

    def callee_mode(self, key):
        u = self.unit
        if u is None:
            return None
        cm = getattr(u, "callee_modes", None) or {}
        if key in cm:
            return cm[key]
        return getattr(u, "mode", None)

    def call_live_lambda(self, fn, args, kwargs, st):
        mod = fn.__module__
        tree = self.idx.trees[mod]
        line = fn.__code__.co_firstlineno
        cands = [n for n in ast.walk(tree) if isinstance(n, ast.Lambda) and n.lineno == line]
        if len(cands) != 1:
            raise OutOfSubset("cannot locate lambda source")
        clo = Closure(cands[0], None, "<lambda>", mod)
        return self.call_closure(clo, args, kwargs, st)

    def call_closure(self, c: Closure, args, kwargs, st) -> Val:
        ck = self.reg.lookup(self._closure_key(c), {})
        fnode = c.node
        self.fstack.append(FuncCtx(c.module, c.qualname))
        try:
            bound = self.bind_args(fnode, args, kwargs, closure=c, st=st)
        finally:
            self.fstack.pop()
        if ck is not None and not ck.inline:
            return self.apply_contract(ck, bound, st)
        return self.inline_expr_closure(c, bound, st)

    def inline_expr_closure(self, c: Closure, bound, st, allow_stmts=False) -> Val:
        """Inline a closure at expression level.  Single-expression bodies are evaluated in
        place; statement bodies are executed and must have exactly one normal outcome."""
        if self.inline_depth > 8:
            raise OutOfSubset("inline depth")
        self.inline_depth += 1
        self.fstack.append(self.make_fctx(c.module, c.qualname, c.node))
        saved = st.cur
        st.push(bound, c.env)
        try:
            if isinstance(c.node, ast.Lambda):
                return self.eval(c.node.body, st)
            body = [s for s in c.node.body if not _is_docstring(s)]
            if len(body) == 1 and isinstance(body[0], ast.Return):
                return self.eval(body[0].value, st) if body[0].value else VNONE
            # statement body: run, expect a single normal path (others are exceptional)
            outs = self.exec_block(body, st)
            normal = [o for o in outs if o.kind in ("return", "fall")]
            for o in outs:
                if o.kind == "raise":
                    if o.st is st:
                        # the caller's state object is about to be overwritten with the normal
                        # path: the exceptional path keeps its own copy
                        o.st = st.copy()
                    o.st.cur = saved
                    self.side.append(o)
            if len(normal) == 0:
                raise DeadPath()
            if len(normal) > 1:
                # join the paths (ite over their conditions) when they differ only in values
                results = []
                for o in normal:
                    o.st.cur = saved
                    results.append((o.val if o.kind == "return" and o.val is not None else VNONE, o.st))
                merged = self.merge_results(results, st)
                if merged is None:
                    raise OutOfSubset(f"inlined {c.qualname} has {len(normal)} normal paths in expression position")
                val, ms = merged
                st.pc, st.guards, st.levels = ms.pc, ms.guards, ms.levels
                return val
            o = normal[0]
            st.pc, st.guards, st.levels = o.st.pc, o.st.guards, o.st.levels
            return o.val if o.kind == "return" and o.val is not None else VNONE
        finally:
            st.cur = saved
            self.fstack.pop()
            self.inline_depth -= 1

    # ------------------------------------------------------------------ contracts at call sites
    def apply_contract(self, c, bound, st) -> Val:
        self.ctx.callees.add(c.name)
        env = {}
        for p, sh in c.params.items():
            if p not in bound:
                raise BindingLost(f"contract {c.name}: parameter {p} not in call")
            v = bound[p]
            if hasattr(sh, "get"):
                # concrete parameter: use the contract's own object (equal tuples are identified)
                env[p] = V.vconc(sh.get()) if isinstance(v.shape, ConcS) and isinstance(v.d, tuple) else v
                continue
            try:
                env[p] = V.coerce(self.as_sym(v), sh)
            except V.ShapeError as e:
                env[p] = self.narrow(self.as_sym(v), sh, st, c, p)
        extra = {p for p in set(bound) - set(c.params) if not isinstance(bound[p].shape, NoneS)}
        if extra:
            raise BindingLost(f"contract {c.name}: call binds {sorted(extra)} not in contract params")
        mod = c.key.split(":")[0]
        for gname, gsh in c.ghost_params.items():
            have = st.lookup(gname)
            env[gname] = have if (have is not None and have.shape == gsh) else V.fresh(gsh, "g_" + gname)
        for gname, gsh in c.ghost_results.items():
            env[gname] = V.fresh(gsh, gname)
            st.assume(Q.deep_wf(self, env[gname]))
        # `_warnings` in a callee clause is the number of warnings logged by that call
        wcount = z3.Int(V.fresh_name("warnings"))
        env["_warnings"] = V.vint(wcount)
        st.pc.append(wcount == 0 if c.is_silent else wcount >= 0)   # fresh variable: unconditional
        saved_reindex = getattr(self, "reindex", None)
        self.reindex = [v.view[1] for v in env.values() if isinstance(v, Val) and v.view is not None] or None
        try:
            return self._apply_contract(c, bound, st, env, mod)
        finally:
            self.reindex = saved_reindex

    def _apply_contract(self, c, bound, st, env, mod):
        for name, text in c.requires:
            goal = self.truth(self.spec_eval(text, env, st, mod, c), st)
            self.ctx.oblige(f"L{self.cur_line}/call:{c.name}/{name}", st, goal, kind="call-pre")
        from .contract import MapOf
        if callable(c.result) and not isinstance(c.result, (V.Shape, MapOf)):
            import copy
            c = copy.copy(c)
            c.result = c.result({p: v for p, v in env.items() if isinstance(v, Val)})
        if isinstance(c.result, MapOf):
            items = {}
            for k, sh in c.result.items():
                items[k] = V.fresh(sh, "r_map")
                st.assume(Q.deep_wf(self, items[k]))
            res = V.vconc(PyMap(items=items))
        else:
            res = V.fresh(c.result, "r_" + c.key.split(":")[1].split(".")[-1]) if c.result is not None else VNONE
            if c.result is not None:
                st.assume(Q.deep_wf(self, res))
        env["result"] = res
        if c.pure and c.result is not None and not isinstance(c.result, MapOf):
            # the function is deterministic and reads only its arguments (fxvc obligation), so
            # its result is a function of them: equal calls give equal results
            # (leafwise: the fresh result is *named* by the function symbols)
            st.pc.append(V.raw_eq(res, self.pure_result(c, [env[p] for p in c.params if not hasattr(c.params[p], "get")])))
        if c.defines and not isinstance(c.result, MapOf):
            dv = self.spec_eval(c.defines, env, st, mod, c)
            st.assume(self.py_eq(res, V.coerce(self.as_sym(dv), c.result)))
        for exc, cond in c.raises.items():
            cv = self.truth(self.spec_eval(cond, env, st, mod, c), st)
            self.raise_side(st, exc, cv)
        for exc, cond in c.raise_allowed.items():
            cv = self.truth(self.spec_eval(cond, env, st, mod, c), st)
            b = z3.Bool(V.fresh_name(f"may_{exc}"))
            f = st.copy()
            f.pc = f.full_pc(z3.And(b, cv))
            f.guards = []
            if not self.spec_mode and self.is_feasible(f):
                self.side.append(Outcome("raise", f, exc=exc))
        slim = (getattr(self.unit, "callee_ensures", None) or {}).get(c.key) is not None if self.unit is not None else False
        for cond in c.must_raise:
            if slim:
                continue       # this unit imports only selected facts of this callee (sound: fewer assumptions)
            cv = self.truth(self.spec_eval(cond, env, st, mod, c), st)
            st.assume(z3.Not(cv))
        for exc in c.may_raise:
            b = z3.Bool(V.fresh_name(f"may_{exc}"))
            f = st.copy()
            f.pc = f.full_pc(b)
            f.guards = []
            if not self.spec_mode:
                self.side.append(Outcome("raise", f, exc=exc))
        keep = (getattr(self.unit, "callee_ensures", None) or {}).get(c.key) if self.unit is not None else None
        for name, text in c.ensures:
            if keep is not None and not any(name.startswith(p) for p in keep):
                continue
            st.assume(self.truth(self.spec_eval(text, env, st, mod, c), st))
        w = st.lookup("_warnings")
        if w is not None and not self.spec_mode and not c.is_silent:
            g = st.guard_cond()
            inc = env["_warnings"].d if g is None else z3.If(g, env["_warnings"].d, 0)
            st.holder("_warnings").vars["_warnings"] = V.vint(w.d + inc)
        self.last_ghost_results = {g: env[g] for g in c.ghost_results}
        return res

    _pure_fns: dict = {}

    def pure_result(self, c, argvals):
        from contracts.specs import view_leaves
        ls = [l for v in argvals for l in view_leaves(self.as_sym(v))]
        sorts = c.result.sorts()
        key = (c.name, tuple(str(l.sort()) for l in ls))
        fns = self._pure_fns.get(key)
        if fns is None:
            tag = c.name.split(":")[1].replace(".", "_").replace("[", "_").replace("]", "")
            fns = [z3.Function(f"F_{tag}_{i}_{len(self._pure_fns)}", *[l.sort() for l in ls], srt) for i, srt in enumerate(sorts)]
            self._pure_fns[key] = fns
        return V.from_leaves(c.result, [f(*ls) if ls else f() for f in fns])

    def narrow(self, v: Val, sh, st, c, p):
        """Pass a Union/Optional value where one alternative is expected: safety obligation."""
        if isinstance(v.shape, OptS) and isinstance(v.shape.inner, UnionS) and not isinstance(sh, (OptS, UnionS)):
            self.ctx.oblige(f"L{self.cur_line}/call:{c.name}/arg-{p}-not-None", st, z3.Not(v.d[0]), kind="safety")
            return self.narrow(v.d[1], sh, st, c, p)
        if isinstance(v.shape, UnionS):
            for i, alt in enumerate(v.shape.alts):
                if alt == sh:
                    self.ctx.oblige(f"L{self.cur_line}/call:{c.name}/arg-{p}-type", st, v.d[0] == i, kind="safety")
                    return v.d[1][i]
        if isinstance(v.shape, OptS) and v.shape.inner == sh:
            self.ctx.oblige(f"L{self.cur_line}/call:{c.name}/arg-{p}-not-None", st, z3.Not(v.d[0]), kind="safety")
            return v.d[1]
        if isinstance(v.shape, OptS) and isinstance(sh, UnionS) and any(a == v.shape.inner for a in sh.alts) \
                and not any(isinstance(a, NoneS) for a in sh.alts):
            self.ctx.oblige(f"L{self.cur_line}/call:{c.name}/arg-{p}-not-None", st, z3.Not(v.d[0]), kind="safety")
            return V.coerce(v.d[1], sh)
        raise OutOfSubset(f"argument {p} of {c.name}: cannot pass {v.shape} as {sh}")

    # ------------------------------------------------------------------ spec evaluation
    _spec_cache: dict = {}

    def spec_eval(self, text, env: dict, st, module, contract=None) -> Val:
        node = self._spec_cache.get(text)
        if node is None:
            try:
                node = ast.parse(text.strip(), mode="eval").body
            except SyntaxError as e:
                raise BindingLost(f"contract expression does not parse: {text!r}: {e}")
            self._spec_cache[text] = node
        sub = State(dict(env), st.pc, st.guards)
        self.spec_mode += 1
        self.fstack.append(FuncCtx(module, "<spec>"))
        try:
            return self.eval(node, sub)
        except BindingLost:
            raise
        finally:
            self.fstack.pop()
            self.spec_mode -= 1


class _Opaque:
    def __init__(self, what):
        self.what = what

    def __repr__(self):
        return f"<opaque {self.what}>"


def _is_docstring(s):
    return isinstance(s, ast.Expr) and isinstance(s.value, ast.Constant) and isinstance(s.value.value, str)


