"""Quantifiers over sequence indices.

Normal mode: z3 ForAll/Exists with explicit select-based triggers.
Finite mode (eng.finite = N): used only for the *refutation search* of obligations the solver
could not decide.  Every quantifier over [lo, hi) is expanded over the window -1..N and the
assumption "the range lies inside the window" is recorded in ctx.finite_assumptions; the resulting
queries are quantifier free, so a `sat` answer comes with a concrete, replayable model."""
from __future__ import annotations

import z3

from . import values as V


def _mentions(t, k, cache):
    i = t.get_id()
    if i in cache:
        return cache[i]
    r = z3.eq(t, k) or any(_mentions(c, k, cache) for c in t.children())
    cache[i] = r
    return r


def _has_binder(t):
    stack = [t]
    seen = set()
    while stack:
        x = stack.pop()
        if x.get_id() in seen:
            continue
        seen.add(x.get_id())
        if z3.is_quantifier(x) or z3.is_var(x) or (z3.is_app(x) and x.decl().kind() == z3.Z3_OP_ITE):
            return True
        stack.extend(x.children())
    return False


def index_patterns(body, k, limit=8):
    """Every array read `A[k]` (A not mentioning k) is an alternative single-term trigger."""
    cache = {}
    found = {}
    seen = set()
    stack = [body]
    while stack:
        t = stack.pop()
        if t.get_id() in seen:
            continue
        seen.add(t.get_id())
        if z3.is_quantifier(t):
            continue
        if z3.is_select(t) and z3.eq(t.arg(1), k) and not _mentions(t.arg(0), k, cache) \
                and not _has_binder(t.arg(0)):
            found[t.get_id()] = t
        stack.extend(t.children())
    pats = list(found.values())
    pats.sort(key=lambda t: t.sexpr())
    return pats[:limit]


def find_offsets(body, k, limit=3):
    """Offsets o such that the body reads some array at index k + o (o not mentioning k)."""
    cache = {}
    offs = {}
    seen = set()
    stack = [body]
    while stack:
        t = stack.pop()
        if t.get_id() in seen:
            continue
        seen.add(t.get_id())
        if z3.is_quantifier(t):
            stack.append(t.body())
            continue
        if z3.is_select(t) and z3.is_add(t.arg(1)) and not _mentions(t.arg(0), k, cache):
            ch = t.arg(1).children()
            if sum(1 for c in ch if z3.eq(c, k)) == 1:
                rest = [c for c in ch if not z3.eq(c, k)]
                if rest and not any(_mentions(c, k, cache) for c in rest) and not any(_has_binder(c) for c in rest):
                    o = rest[0] if len(rest) == 1 else z3.Sum(rest)
                    offs[z3.simplify(o).sexpr()] = o
        stack.extend(t.children())
    return list(offs.values())[:limit]


def _shifted(quant, eng, k, lo, hi, body, name, is_forall):
    """Equivalent re-indexed copies (k' = k + o) of a quantifier whose body reads A[k + o]:
    they are triggered by plain reads A[t] of the base array.  Only generated where slices are
    in play (eng.shift_quantifiers), since the extra quantifiers slow unrelated proofs down."""
    out = []
    if not getattr(eng, "shift_quantifiers", False):
        return out
    try:
        sb = z3.simplify(body)
        for o in find_offsets(sb, k):
            k2 = z3.Int(V.fresh_name(name + "s"))
            body2 = z3.simplify(z3.substitute(sb, (k, k2 - o)))
            pats2 = index_patterns(body2, k2)
            if not pats2:
                continue
            rng = z3.And(k2 >= lo + o, k2 < hi + o)
            out.append(_mk(quant, k2, z3.Implies(rng, body2) if is_forall else z3.And(rng, body2), pats2))
    except z3.Z3Exception:
        pass
    return out


def _mk(quant, k, f, pats):
    if pats:
        try:
            return quant([k], f, patterns=pats)
        except z3.Z3Exception:
            pass        # a trigger mentions an enclosing binder: let z3 choose
    return quant([k], f)


def _window(eng, lo, hi):
    n = eng.finite
    eng.ctx.finite_assumptions.append(z3.Or(hi <= lo, z3.And(lo >= -1, hi <= n + 1)))
    return range(-1, n + 1)


def forall(eng, lo, hi, body_fn, name="q"):
    if getattr(eng, "finite", None) is None:
        k = z3.Int(V.fresh_name(name))
        body = body_fn(k)
        pats = index_patterns(body, k)
        f = z3.Implies(z3.And(k >= lo, k < hi), body)
        q = _mk(z3.ForAll, k, f, pats)
        extra = _shifted(z3.ForAll, eng, k, lo, hi, body, name, True)
        if extra:
            q = z3.And([q] + extra)
        offs = getattr(eng, "reindex", None)
        if offs:
            # a callee clause about a slice argument xs[a:b]: also state it over the base
            # sequence's own indices (equivalent formula, k' = k + a) so that reads of the base
            # sequence trigger it
            parts = [q]
            for o in offs:
                k2 = z3.Int(V.fresh_name(name + "r"))
                body2 = z3.simplify(body_fn(k2 - o))
                pats2 = index_patterns(body2, k2)
                if pats2:
                    parts.append(_mk(z3.ForAll, k2, z3.Implies(z3.And(k2 >= lo + o, k2 < hi + o), body2), pats2))
            return z3.And(parts)
        return q
    return z3.And([z3.Implies(z3.And(lo <= i, i < hi), body_fn(z3.IntVal(i))) for i in _window(eng, lo, hi)])


def exists(eng, lo, hi, body_fn, name="q"):
    if getattr(eng, "finite", None) is None:
        k = z3.Int(V.fresh_name(name))
        body = body_fn(k)
        pats = index_patterns(body, k)
        f = z3.And(k >= lo, k < hi, body)
        q = _mk(z3.Exists, k, f, pats)
        extra = _shifted(z3.Exists, eng, k, lo, hi, body, name, False)
        if extra:
            q = z3.Or([q] + extra)
        offs = getattr(eng, "reindex", None)
        if offs:
            parts = [q]
            for o in offs:
                k2 = z3.Int(V.fresh_name(name + "r"))
                body2 = z3.simplify(body_fn(k2 - o))
                pats2 = index_patterns(body2, k2)
                if pats2:
                    parts.append(_mk(z3.Exists, k2, z3.And(k2 >= lo + o, k2 < hi + o, body2), pats2))
            return z3.Or(parts)
        return q
    return z3.Or([z3.And(lo <= i, i < hi, body_fn(z3.IntVal(i))) for i in _window(eng, lo, hi)])


def _needs_wf(shape):
    from .values import EnumS, UnionS, SeqS, OptS, TupS, RecS
    if isinstance(shape, (EnumS, UnionS, SeqS)):
        return True
    if isinstance(shape, OptS):
        return _needs_wf(shape.inner)
    if isinstance(shape, TupS):
        return any(_needs_wf(i) for i in shape.items)
    if isinstance(shape, RecS):
        return any(_needs_wf(f) for f in shape.fields.values())
    return False


def deep_wf(eng, v):
    """Type invariant of a value including all elements of (nested) sequences."""
    from .values import SeqS, OptS, TupS, RecS, wf, seq_select
    s = v.shape
    if isinstance(s, SeqS):
        base = v.d[1] >= 0
        if s.elem is not None and _needs_wf(s.elem):
            return z3.And(base, forall(eng, z3.IntVal(0), v.d[1], lambda k: deep_wf(eng, seq_select(v, k)), "wf"))
        return base
    if isinstance(s, OptS):
        return z3.Or(v.d[0], deep_wf(eng, v.d[1]))
    if isinstance(s, TupS):
        return z3.And([deep_wf(eng, i) for i in v.d] or [z3.BoolVal(True)])
    if isinstance(s, RecS):
        return z3.And([deep_wf(eng, f) for f in v.d.values()] or [z3.BoolVal(True)])
    return wf(v)
