"""Contracts for chartparse/chart.py."""
from pyvc.contract import Contract, LoopSpec, Conc, Ghost
from pyvc.values import INT, REAL, TD, STR, NONE, OptS, TupS, SeqS, UnionS, MapS, RecS, DictS, ViewS
from .c_sync import _cls, BIG

C = "chartparse.chart:"
# properties stated about every line of a section of the FILE (see the partition contract below)
FILE_BODY = ["C02", "C07", "C08", "C09", "C10", "C14"]


def register(reg, S):
    NE = S["NoteEvent"]
    S["Metadata"] = RecS("chartparse.metadata:Metadata", dict(
        resolution=INT, offset=INT, player2=S["Player2Instrument"], difficulty=INT, preview_start=INT, preview_end=INT,
        genre=STR, media_type=STR, **{f: OptS(STR) for f in (
            "name", "artist", "charter", "album", "year", "music_stream", "guitar_stream", "rhythm_stream", "bass_stream",
            "drum_stream", "drum2_stream", "drum3_stream", "drum4_stream", "vocal_stream", "keys_stream", "crowd_stream")}))
    reg.class_shapes[S["Metadata"].key] = S["Metadata"]
    S["TrackMap"] = MapS(S["Instrument"], MapS(S["Difficulty"], S["InstrumentTrack"]))
    S["Chart"] = RecS("chartparse.chart:Chart", dict(
        metadata=S["Metadata"], global_events_track=S["GlobalEventsTrack"], sync_track=S["SyncTrack"],
        instrument_tracks=S["TrackMap"]))
    reg.class_shapes[S["Chart"].key] = S["Chart"]

    # ------------------------------------------------------------------ _notes_per_second
    cnt = "sum(1 for e in events if start_time <= e.timestamp <= end_time)"
    dur = "micros(end_time) - micros(start_time)"
    reg.add(Contract(
        C + "Chart._notes_per_second",
        params=dict(events=SeqS(NE), start_time=TD, end_time=TD), result=REAL,
        requires=[("envelope", "-10**18 <= micros(start_time) <= 10**18 and -10**18 <= micros(end_time) <= 10**18 and len(events) <= 2**50")],
        raises={"ValueError": f"{dur} <= 0"},
        ensures=[
            # the number of notes in the closed interval, divided by the interval's length in
            # seconds; RN = correctly rounded float (lemma npsBound: within 3 ulp-units of exact)
            ("count-in-closed-interval-over-length", f"result == RN(({cnt}) / RN(({dur}) / 1000000))"),
            ("nonnegative", "result >= 0"),
        ],
        props=["C16"]))

    # ------------------------------------------------------------------ __getitem__
    reg.add(Contract(
        C + "Chart.__getitem__", params=dict(self=S["Chart"], instrument=S["Instrument"]),
        result=MapS(S["Difficulty"], S["InstrumentTrack"]),
        ensures=[("present-gives-stored", "implies(instrument in self.instrument_tracks, result == self.instrument_tracks[instrument])"),
                 ("absent-gives-empty", "implies(instrument not in self.instrument_tracks, forall_key_absent(result))")],
        props=["C19"]))

    # ------------------------------------------------------------------ notes_per_second
    BOUND = UnionS([TD, INT, NONE])
    be = "self.sync_track.bpm_events"
    T = "self.instrument_tracks[instrument][difficulty]"
    present = "(instrument in self.instrument_tracks and difficulty in self.instrument_tracks[instrument])"
    lne = f"fn_result('chartparse.instrument:InstrumentTrack.last_note_end_timestamp', {T})"
    s_time = f"(us(0) if tag(start) == 2 else (TS({be}, alt(start, 1)) if tag(start) == 1 else alt(start, 0)))"
    e_time = f"({lne} if tag(end) == 2 else (TS({be}, alt(end, 1)) if tag(end) == 1 else alt(end, 0)))"
    reg.add(Contract(
        C + "Chart.notes_per_second",
        params=dict(self=S["Chart"], instrument=S["Instrument"], difficulty=S["Difficulty"], start=BOUND, end=BOUND),
        result=REAL,
        requires=[("wf-sorted", f"sorted_ticks({be})"),
                  ("nonempty-first0", f"len({be}.events) >= 1 and {be}.events[0].tick == 0 and {be}.resolution >= 1"),
                  ("envelope", f"ENV({be}) and implies(tag(start) == 1, -{BIG} <= alt(start, 1) <= {BIG}) and implies(tag(end) == 1, -{BIG} <= alt(end, 1) <= {BIG}) "
                               f"and implies(tag(start) == 0, -10**17 <= micros(alt(start, 0)) <= 10**17) and implies(tag(end) == 0, -10**17 <= micros(alt(end, 0)) <= 10**17)"),
                  # the declared overloads: both ticks, both timestamps, or omitted (an omitted
                  # start with a timestamp end is outside every overload)
                  ("same-kind-of-bounds", "(tag(start) == 2 and tag(end) != 0) or (tag(start) == 1 and tag(end) != 0) or (tag(start) == 0 and tag(end) != 1)"),
                  ("tick-bounds-have-bounded-times", f"implies(tag(start) == 1 and alt(start, 1) >= 0, -10**17 <= micros(TS({be}, alt(start, 1))) <= 10**17) "
                                                     f"and implies(tag(end) == 1 and alt(end, 1) >= 0, -10**17 <= micros(TS({be}, alt(end, 1))) <= 10**17)"),
                  ("times-bounded", f"implies({present}, len({T}.note_events) <= 2**50 and forall(0, len({T}.note_events), lambda k: -10**17 <= micros({T}.note_events[k].end_timestamp) <= 10**17)) "
                                    f"and forall(0, len({be}.events), lambda k: -10**17 <= micros({be}.events[k].timestamp) <= 10**17)")],
        raise_allowed={"ValueError": "True"},
        must_raise=[f"not {present}", f"{present} and len({T}.note_events) == 0",
                    f"{present} and len({T}.note_events) > 0 and tag(start) != 1 and tag(end) != 1 and micros({e_time}) - micros({s_time}) <= 0",
                    # tick bounds: the interval between the tempo-map times of the two ticks
                    f"{present} and len({T}.note_events) > 0 and implies(tag(start) == 1, alt(start, 1) >= 0) and implies(tag(end) == 1, alt(end, 1) >= 0) "
                    f"and (tag(start) == 1 or tag(end) == 1) and micros({e_time}) - micros({s_time}) <= 0"],
        ensures=[("is-rate-over-resolved-interval", f"result == fn_result('chartparse.chart:Chart._notes_per_second', {T}.note_events, {s_time}, {e_time})")],
        props=["C16"]))

    # ------------------------------------------------------------------ framing of sections
    H = "chartparse.chart:Chart#_header_tag_regex_prog"
    # section tag -> islice view into the list of lines (the value is the pair of bounds)
    SECTIONS = lambda env: DictS(STR, ViewS(env["lines"]))
    S["Sections"] = SECTIONS
    ghost = dict(g_k=INT, g_start=SeqS(INT), g_tag=SeqS(STR))
    # a well-formed file: g_k sections; section j occupies lines[g_start[j] : g_start[j+1]]:
    # header "[tag]", "{", body, "}"; no body line is a brace line; tags pairwise distinct
    wf_file = [
        ("sections-tile-the-file", "g_k >= 0 and len(g_start) == g_k + 1 and len(g_tag) == g_k and g_start[0] == 0 and g_start[g_k] == len(lines)"),
        ("section-frame", f"forall(0, g_k, lambda j: g_start[j] + 3 <= g_start[j + 1] and rxm('{H}', lines[g_start[j]]) and rxg('{H}', 1, lines[g_start[j]]) == g_tag[j] "
                          "and lines[g_start[j] + 1] == '{' and lines[g_start[j + 1] - 1] == '}')"),
        ("no-brace-line-inside-a-body", "forall(0, g_k, lambda j: forall(g_start[j] + 2, g_start[j + 1] - 1, lambda i: lines[i] != '{' and lines[i] != '}'))"),
        ("tags-distinct", "forall(0, g_k, lambda a: forall(a + 1, g_k, lambda b: g_tag[a] != g_tag[b]))"),
        ("section-starts-increase", "forall(0, g_k + 1, lambda a: forall(a + 1, g_k + 1, lambda b: g_start[a] < g_start[b]))"),
    ]
    S["wf_file"] = wf_file

    def framed(d, upto):
        return [
            ("one-entry-per-section-in-file-order", f"len(keys_of({d})) == {upto} and forall(0, {upto}, lambda j: keys_of({d})[j] == g_tag[j])"),
            ("each-section-gets-exactly-its-body", f"forall(0, {upto}, lambda j: g_tag[j] in {d} and lo_of({d}[g_tag[j]]) == g_start[j] + 2 "
                                                   f"and hi_of({d}[g_tag[j]]) == g_start[j + 1] - 1)"),
            ("no-other-key", f"forall_keys({d}, lambda key: exists(0, {upto}, lambda j: key == g_tag[j]))"),
        ]
    S["framed"] = framed
    reg.add(Contract(
        C + "Chart._partition_lines_by_data_section",
        params=dict(cls=_cls(C + "Chart"), lines=SeqS(STR)), result=SECTIONS,
        ghost_params=ghost, requires=wf_file, pure=False,
        ensures=framed("result", "g_k"),
        ghost_init="g_s = 0",
        ghosts=[Ghost("curr_last_line_index = i - 1", "g_s = g_s + 1")],
        loops={0: LoopSpec(invariants=[
            ("section-cursor", "0 <= g_s and g_s <= g_k and g_start[g_s] <= _it and implies(g_s < g_k, _it < g_start[g_s + 1]) and implies(g_s == g_k, _it == len(lines))"),
            ("header-pending-iff-at-section-start", "iff(curr_header_tag is None, _it == g_start[g_s])"),
            ("current-tag", "implies(curr_header_tag is not None, g_s < g_k and curr_header_tag == g_tag[g_s])"),
            ("body-start-recorded", "implies(curr_header_tag is not None and _it >= g_start[g_s] + 2, curr_first_line_index == g_start[g_s] + 2)"),
            ("body-start-nonneg", "curr_first_line_index is None or curr_first_line_index >= 0"),
        ] + framed("d", "g_s"))},
        locals={"d": SECTIONS, "curr_header_tag": OptS(STR), "curr_first_line_index": OptS(INT), "curr_last_line_index": OptS(INT)},
        # File-level glue: the properties about "every line of a section" (C02, C07-C10, C14) are stated
        # over the file, so they also need each section parser to receive exactly its body (seeded
        # C14e: an index shift in this function lost the last body line of a section and no check
        # but C06's looked here).  The key set / key order clauses stay C06's and C13's alone.
        props=["C06", "C13"] + FILE_BODY,
        clause_props={"one-entry-per-section-in-file-order": ["C06", "C13"], "no-other-key": ["C06", "C13"],
                      "each-section-gets-exactly-its-body": ["C06", "C13"] + FILE_BODY}))
    # the same function on arbitrary lines: only the documented error can escape (C18)
    reg.add(Contract(
        C + "Chart._partition_lines_by_data_section", inst="safety", mode="safety",
        params=dict(cls=_cls(C + "Chart"), lines=SeqS(STR)), result=SECTIONS,
        raise_allowed={"RegexNotMatchError": "True"}, pure=False,
        loops={0: LoopSpec(invariants=[("body-start-nonneg", "curr_first_line_index is None or curr_first_line_index >= 0")])},
        locals={"d": SECTIONS, "curr_header_tag": OptS(STR), "curr_first_line_index": OptS(INT), "curr_last_line_index": OptS(INT)},
        props=["C18"]))
