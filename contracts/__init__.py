"""Sidecar contracts for chartparse.  build_registry() is called on every run; it reads ground
facts (enum tables, dataclass fields, pattern strings) from the live package."""
from pyvc.contract import Registry


def build_registry():
    from . import shapes, specs
    reg = Registry()
    S = shapes.build()
    shapes.register(reg, S)
    specs.register(reg)
    reg.S = S
    import importlib
    for m in ("c_tick", "c_sync", "c_events", "c_instrument", "c_track", "c_chart", "c_globalevents", "c_metadata"):
        try:
            mod = importlib.import_module(f"contracts.{m}")
        except ModuleNotFoundError as e:
            if f"contracts.{m}" in str(e):
                continue
            raise
        mod.register(reg, S)
    # contracts that refer to other contracts' clauses are registered last
    from . import c_track
    c_track.register_dispatcher(reg, S)
    for m in ("c_sections", "c_safety", "c_file", "c_render"):
        try:
            mod = importlib.import_module(f"contracts.{m}")
        except ModuleNotFoundError as e:
            if f"contracts.{m}" in str(e):
                continue
            raise
        mod.register(reg, S)
    from . import oracles
    oracles.attach(reg)
    from vlib import native_file
    native_file.attach(reg)
    from vlib import native_notes
    native_notes.attach(reg)
    return reg
