"""Safety instances (mode='safety'): the same real functions under WEAK preconditions (arbitrary
lines / data, only the numeric envelope implied by C18's token bounds) with postconditions that
say little: what is proved is that no exception other than the documented ones can escape
(every escape/* obligation) for arbitrary input.  Used by C18 and, for routing (C06/C13), where
only 'the track is a function of its own lines' is needed."""
from pyvc.contract import Contract, LoopSpec
from pyvc.values import INT, STR, OptS, TupS, SeqS
from .c_sync import _cls, BIG

I = "chartparse.instrument:"
LANES = range(5)


def register(reg, S):
    NE, SPE, CS = S["NoteEvent"], S["StarPowerEvent"], S["ComplexSustain"]
    bounded = lambda r: (f"implies(tag({r}) == 0, -{BIG} <= alt({r}, 0) <= {BIG}) and implies(tag({r}) == 1, " +
                         " and ".join(f"(alt({r}, 1)[{l}] is None or -{BIG} <= alt({r}, 1)[{l}] <= {BIG})" for l in LANES) + ")")
    reg.add(Contract(
        I + "complex_sustain_from_parsed_datas", inst="safety", mode="safety",
        params=dict(datas=SeqS(S["NoteData"])), result=CS,
        requires=[("nonempty", "len(datas) >= 1"), ("lengths-bounded", f"forall(0, len(datas), lambda k: -{BIG} <= datas[k].sustain <= {BIG})")],
        ensures=[("lengths-bounded", bounded("result"))],
        loops={0: LoopSpec(invariants=[(f"slot{l}-bounded", f"sustain_list[{l}] is None or -{BIG} <= sustain_list[{l}] <= {BIG}") for l in LANES])},
        locals={"sustain_list": SeqS(OptS(INT))}, props=["C18"]))
    be = "bpm_events"
    be_pre = [("wf-sorted", f"sorted_ticks({be})"),
              ("nonempty-first0", f"len({be}.events) >= 1 and {be}.events[0].tick == 0"),
              ("res-range", f"1 <= {be}.resolution <= 2**50"),
              ("envelope", f"ENV({be})")]
    reg.add(Contract(
        I + "NoteEvent.from_parsed_data", inst="safety", mode="safety",
        params=dict(cls=_cls(I + "NoteEvent"), datas=SeqS(S["NoteData"]), prev_event=OptS(NE), star_power_events=SeqS(SPE),
                    bpm_events=S["BPMEvents"], proximal_bpm_event_index=INT, star_power_event_index=INT),
        result=TupS([NE, INT, INT]),
        requires=[("nonempty", "len(datas) >= 1"),
                  ("tokens-bounded", f"forall(0, len(datas), lambda k: 0 <= datas[k].sustain <= {BIG} and -{BIG} <= datas[k].tick <= {BIG})"),
                  ("hints-nonneg", "proximal_bpm_event_index >= 0 and star_power_event_index >= 0")] + be_pre,
        raise_allowed={"ValueError": "True"},
        ensures=[("cursors-nonneg", "result[1] >= 0 and result[2] >= 0")],
        props=["C18"]))
    reg.add(Contract(
        I + "InstrumentTrack._build_note_events_from_data", inst="safety", mode="safety",
        params=dict(cls=_cls(I + "InstrumentTrack"), datas=SeqS(S["NoteData"]), star_power_events=SeqS(SPE), bpm_events=S["BPMEvents"]),
        result=SeqS(NE),
        requires=[("tokens-bounded", f"forall(0, len(datas), lambda k: 0 <= datas[k].sustain <= {BIG} and -{BIG} <= datas[k].tick <= {BIG})")] + be_pre,
        raise_allowed={"ValueError": "True"},
        loops={0: LoopSpec(invariants=[("index-range", "0 <= i and i <= num_datas and num_datas == len(datas)"),
                                       ("cursors-nonneg", "proximal_bpm_event_index >= 0 and star_power_event_index >= 0")],
                           decreases="num_datas - i"),
               1: LoopSpec(invariants=[("run-range", "left <= i and i < num_datas")], decreases="num_datas - i")},
        locals={"events": SeqS(NE)}, props=["C18"]))
    N, SP, E = (I + "NoteEvent.ParsedData", I + "StarPowerEvent.ParsedData", I + "TrackEvent.ParsedData")
    itok = (f"forall(0, len(lines), lambda i: implies(rxm('{N}', lines[i]), pyint(rxg('{N}', 1, lines[i])) <= {BIG} and pyint(rxg('{N}', 3, lines[i])) <= {BIG}) "
            f"and implies(rxm('{SP}', lines[i]), pyint(rxg('{SP}', 1, lines[i])) <= {BIG}) "
            f"and implies(rxm('{E}', lines[i]), pyint(rxg('{E}', 1, lines[i])) <= {BIG}))")
    S["itok"] = itok
    reg.add(Contract(
        I + "InstrumentTrack.from_chart_lines", inst="safety", mode="safety",
        params=dict(cls=_cls(I + "InstrumentTrack"), instrument=S["Instrument"], difficulty=S["Difficulty"],
                    lines=SeqS(STR), bpm_events=S["BPMEvents"]),
        result=S["InstrumentTrack"],
        requires=be_pre + [("tokens-bounded", itok)],
        raise_allowed={"ValueError": "True"},
        ensures=[("labelled", "result.instrument == instrument and result.difficulty == difficulty")],
        silent=False,
        props=["C06", "C13", "C18"]))
