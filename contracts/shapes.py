"""Shapes (static structure) of the chartparse classes used by the contracts.

Every RecS is validated against the live dataclass (field names must coincide) when it is
instantiated; EnumS member tables are read from the live enum classes every run."""
from __future__ import annotations

from pyvc.values import (INT, BOOL, REAL, STR, TD, NONE, OptS, TupS, RecS, SeqS, EnumS, UnionS)
from pyvc.source import live_module

EV = dict(tick=INT, timestamp=TD, _proximal_bpm_event_index=INT)


def _enum(key, value_shape, ordinal=False):
    mod, q = key.split(":")
    cls = live_module(mod)
    for part in q.split("."):
        cls = getattr(cls, part)
    # canonical members only (aliases merged).  `Self = TypeVar(...)` inside an Enum body is
    # itself a member (value: the TypeVar); it can never equal a parsed value and is left out.
    import typing
    members = [(m.name, m.value) for m in cls if not isinstance(m.value, typing.TypeVar)]
    return EnumS(key, value_shape, members, ordinal=ordinal)


def build():
    S = {}
    S["NoteTrackIndex"] = _enum("chartparse.instrument:NoteTrackIndex", INT)
    S["Note"] = _enum("chartparse.instrument:Note", TupS([INT] * 5))
    S["HOPOState"] = _enum("chartparse.instrument:HOPOState", INT)
    S["Instrument"] = _enum("chartparse.instrument:Instrument", STR, ordinal=True)
    S["Difficulty"] = _enum("chartparse.instrument:Difficulty", STR, ordinal=True)
    S["Player2Instrument"] = _enum("chartparse.metadata:Player2Instrument", STR, ordinal=True)
    S["NoteDuration"] = None

    S["BPMEvent"] = RecS("chartparse.sync:BPMEvent", dict(EV, bpm=REAL))
    S["BPMEvents"] = RecS("chartparse.sync:BPMEvents", dict(events=SeqS(S["BPMEvent"]), resolution=INT))
    S["TimeSignatureEvent"] = RecS("chartparse.sync:TimeSignatureEvent", dict(EV, upper_numeral=INT, lower_numeral=INT))
    S["AnchorEvent"] = RecS("chartparse.sync:AnchorEvent", dict(EV))
    S["BPMData"] = RecS("chartparse.sync:BPMEvent.ParsedData", dict(tick=INT, raw_bpm=STR))
    S["TSData"] = RecS("chartparse.sync:TimeSignatureEvent.ParsedData", dict(tick=INT, upper=INT, lower=OptS(INT)))
    S["AnchorData"] = RecS("chartparse.sync:AnchorEvent.ParsedData", dict(tick=INT, microseconds=INT))
    S["SyncTrack"] = RecS("chartparse.sync:SyncTrack", dict(
        time_signature_events=SeqS(S["TimeSignatureEvent"]), bpm_events=S["BPMEvents"],
        anchor_events=SeqS(S["AnchorEvent"])))

    S["SustainTuple"] = TupS([OptS(INT)] * 5)
    S["ComplexSustain"] = UnionS([INT, S["SustainTuple"]])
    S["StarPowerData"] = RecS("chartparse.instrument:StarPowerData", dict(star_power_event_index=INT))
    S["NoteData"] = RecS("chartparse.instrument:NoteEvent.ParsedData",
                         dict(tick=INT, note_track_index=S["NoteTrackIndex"], sustain=INT))
    S["NoteEvent"] = RecS("chartparse.instrument:NoteEvent", dict(
        EV, note=S["Note"], sustain=S["ComplexSustain"], end_timestamp=TD,
        hopo_state=S["HOPOState"], star_power_data=OptS(S["StarPowerData"])))
    S["SpecialData"] = RecS("chartparse.instrument:SpecialEvent.ParsedData", dict(tick=INT, sustain=INT))
    S["StarPowerDataLine"] = RecS("chartparse.instrument:StarPowerEvent.ParsedData", dict(tick=INT, sustain=INT))
    S["SpecialEvent"] = RecS("chartparse.instrument:SpecialEvent", dict(EV, sustain=INT))
    S["StarPowerEvent"] = RecS("chartparse.instrument:StarPowerEvent", dict(EV, sustain=INT))
    S["TrackData"] = RecS("chartparse.instrument:TrackEvent.ParsedData", dict(tick=INT, value=STR))
    S["TrackEvent"] = RecS("chartparse.instrument:TrackEvent", dict(EV, value=STR))
    S["InstrumentTrack"] = RecS("chartparse.instrument:InstrumentTrack", dict(
        instrument=S["Instrument"], difficulty=S["Difficulty"], note_events=SeqS(S["NoteEvent"]),
        star_power_events=SeqS(S["StarPowerEvent"]), track_events=SeqS(S["TrackEvent"])))

    for kind in ("Text", "Section", "Lyric"):
        S[f"{kind}Data"] = RecS(f"chartparse.globalevents:{kind}Event.ParsedData", dict(tick=INT, value=STR))
        S[f"{kind}Event"] = RecS(f"chartparse.globalevents:{kind}Event", dict(EV, value=STR))
    S["GlobalData"] = RecS("chartparse.globalevents:GlobalEvent.ParsedData", dict(tick=INT, value=STR))
    S["GlobalEvent"] = RecS("chartparse.globalevents:GlobalEvent", dict(EV, value=STR))
    S["GlobalEventsTrack"] = RecS("chartparse.globalevents:GlobalEventsTrack", dict(
        text_events=SeqS(S["TextEvent"]), section_events=SeqS(S["SectionEvent"]),
        lyric_events=SeqS(S["LyricEvent"])))
    return S


def register(reg, S):
    for name, sh in S.items():
        if sh is not None and hasattr(sh, "key"):
            reg.class_shapes[sh.key] = sh
