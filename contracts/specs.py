"""Spec functions usable in contract expressions (SMT side)."""
from __future__ import annotations

import z3

from pyvc import values as V
from pyvc.values import Val, INT, BOOL, REAL, TD, IntS, RealS, SeqS, ConcS
from pyvc.objects import Closure
from pyvc import floats

SEC = z3.Function("SEC", z3.IntSort(), z3.RealSort(), z3.IntSort(), z3.RealSort())


def _truth(eng, st, v):
    return eng.truth(eng.as_sym(v), st)


def sp_implies(eng, st, a, b):
    return V.vbool(z3.Implies(_truth(eng, st, a), _truth(eng, st, b)))


def sp_iff(eng, st, a, b):
    return V.vbool(_truth(eng, st, a) == _truth(eng, st, b))


def _quant(eng, st, lo, hi, fn, is_forall):
    if not (isinstance(fn.shape, ConcS) and isinstance(fn.d, Closure)):
        raise TypeError("forall/exists needs a lambda")
    k = z3.Int(V.fresh_name("q"))
    lo_, hi_ = eng._int(eng.as_sym(lo)), eng._int(eng.as_sym(hi))
    body = _truth(eng, st, eng.call_closure(fn.d, [V.vint(k)], {}, st))
    rng = z3.And(k >= lo_, k < hi_)
    if is_forall:
        return V.vbool(z3.ForAll([k], z3.Implies(rng, body)))
    return V.vbool(z3.Exists([k], z3.And(rng, body)))


def sp_forall(eng, st, lo, hi, fn):
    return _quant(eng, st, lo, hi, fn, True)


def sp_exists(eng, st, lo, hi, fn):
    return _quant(eng, st, lo, hi, fn, False)


def sp_SEC(eng, st, ticks, bpm, res):
    return V.vreal(SEC(eng._int(eng.as_sym(ticks)), eng._num(eng.as_sym(bpm)), eng._int(eng.as_sym(res))))


def sp_TDF(eng, st, f):
    """TD(f): microseconds of timedelta(seconds=f) (assumed library contract)."""
    return V.vtd(eng.ctx.fm.td(eng._num(eng.as_sym(f))))


def sp_us(eng, st, n):
    """timedelta of n microseconds."""
    return V.vtd(eng._int(eng.as_sym(n)))


def sp_micros(eng, st, t):
    return V.vint(eng.as_sym(t).d)


def sp_real(eng, st, x):
    return V.vreal(eng._num(eng.as_sym(x)))


def sp_exact_div(eng, st, a, b):
    """Exact real quotient a/b (no rounding): for stating specs."""
    return V.vreal(eng._num(eng.as_sym(a)) / eng._num(eng.as_sym(b)))


def sp_exact_mul(eng, st, a, b):
    return V.vreal(eng._num(eng.as_sym(a)) * eng._num(eng.as_sym(b)))


def sp_exact_sub(eng, st, a, b):
    return V.vreal(eng._num(eng.as_sym(a)) - eng._num(eng.as_sym(b)))


def sp_exact_add(eng, st, a, b):
    return V.vreal(eng._num(eng.as_sym(a)) + eng._num(eng.as_sym(b)))


def sp_absr(eng, st, a):
    return V.vreal(floats.rabs(eng._num(eng.as_sym(a))))


def sp_U(eng, st):
    return V.vreal(floats.U)


def sp_RN(eng, st, x):
    return V.vreal(eng.ctx.fm.rn(eng._num(eng.as_sym(x))))


def sp_pyint(eng, st, s):
    from pyvc.objects import PYINT
    return V.vint(PYINT(eng.as_sym(s).d))


def sp_pow2(eng, st, n):
    from pyvc.objects import PYPOW
    x = eng._int(eng.as_sym(n))
    for k in range(0, 17):
        eng.ctx.axioms.append(PYPOW(2, k) == 2 ** k)
    return V.vint(PYPOW(z3.IntVal(2), x))


def register(reg):
    f = reg.spec_funcs
    f["implies"] = sp_implies
    f["iff"] = sp_iff
    f["forall"] = sp_forall
    f["exists"] = sp_exists
    f["SEC"] = sp_SEC
    f["TDF"] = sp_TDF
    f["us"] = sp_us
    f["micros"] = sp_micros
    f["real"] = sp_real
    f["xdiv"] = sp_exact_div
    f["xmul"] = sp_exact_mul
    f["xsub"] = sp_exact_sub
    f["xadd"] = sp_exact_add
    f["absr"] = sp_absr
    f["U"] = sp_U
    f["RN"] = sp_RN
    f["pyint"] = sp_pyint
    f["pow2"] = sp_pow2
