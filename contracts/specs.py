"""Spec functions usable in contract expressions (SMT side)."""
from __future__ import annotations

import z3

from pyvc import values as V
from pyvc.values import Val, INT, BOOL, REAL, TD, IntS, RealS, SeqS, ConcS
from pyvc.objects import Closure
from pyvc import floats
from pyvc import quant as Q

SEC = z3.Function("SEC", z3.IntSort(), z3.RealSort(), z3.IntSort(), z3.RealSort())


def _truth(eng, st, v):
    return eng.truth(eng.as_sym(v), st)


def sp_implies(eng, st, a, b):
    return V.vbool(z3.Implies(_truth(eng, st, a), _truth(eng, st, b)))


def sp_iff(eng, st, a, b):
    return V.vbool(_truth(eng, st, a) == _truth(eng, st, b))


def _quant(eng, st, lo, hi, fn, is_forall):
    if not (isinstance(fn.shape, ConcS) and isinstance(fn.d, Closure)):
        raise TypeError("forall/exists needs a lambda")
    lo_, hi_ = eng._int(eng.as_sym(lo)), eng._int(eng.as_sym(hi))

    def body(k):
        eng.quant_depth = getattr(eng, "quant_depth", 0) + 1
        try:
            return _truth(eng, st, eng.call_closure(fn.d, [V.vint(k)], {}, st))
        finally:
            eng.quant_depth -= 1
    return V.vbool((Q.forall if is_forall else Q.exists)(eng, lo_, hi_, body))


def sp_forall(eng, st, lo, hi, fn):
    return _quant(eng, st, lo, hi, fn, True)


def sp_exists(eng, st, lo, hi, fn):
    return _quant(eng, st, lo, hi, fn, False)


def sp_SEC(eng, st, ticks, bpm, res):
    return V.vreal(SEC(eng._int(eng.as_sym(ticks)), eng._num(eng.as_sym(bpm)), eng._int(eng.as_sym(res))))


def sp_TDF(eng, st, f):
    """TD(f): microseconds of timedelta(seconds=f) (assumed library contract)."""
    if getattr(eng, "quant_depth", 0):
        return V.vtd(floats.TDf(eng._num(eng.as_sym(f))))
    return V.vtd(eng.ctx.fm.td(eng._num(eng.as_sym(f))))


def sp_us(eng, st, n):
    """timedelta of n microseconds."""
    return V.vtd(eng._int(eng.as_sym(n)))


def sp_micros(eng, st, t):
    t = eng.as_sym(t)
    from pyvc.values import OptS
    if isinstance(t.shape, OptS):
        t = t.d[1]
    return V.vint(t.d)


def sp_real(eng, st, x):
    return V.vreal(eng._num(eng.as_sym(x)))


def sp_exact_div(eng, st, a, b):
    """Exact real quotient a/b (no rounding): for stating specs."""
    return V.vreal(eng._num(eng.as_sym(a)) / eng._num(eng.as_sym(b)))


def sp_exact_mul(eng, st, a, b):
    return V.vreal(eng._num(eng.as_sym(a)) * eng._num(eng.as_sym(b)))


def sp_exact_sub(eng, st, a, b):
    return V.vreal(eng._num(eng.as_sym(a)) - eng._num(eng.as_sym(b)))


def sp_exact_add(eng, st, a, b):
    return V.vreal(eng._num(eng.as_sym(a)) + eng._num(eng.as_sym(b)))


def sp_absr(eng, st, a):
    return V.vreal(floats.rabs(eng._num(eng.as_sym(a))))


def sp_U(eng, st):
    return V.vreal(floats.U)


def sp_RN(eng, st, x):
    if getattr(eng, "quant_depth", 0):
        return V.vreal(floats.RNf(eng._num(eng.as_sym(x))))
    return V.vreal(eng.ctx.fm.rn(eng._num(eng.as_sym(x))))


def sp_pyint(eng, st, s):
    from pyvc.objects import PYINT
    return V.vint(PYINT(eng.as_sym(s).d))


def sp_pow2(eng, st, n):
    from pyvc.objects import PYPOW
    x = eng._int(eng.as_sym(n))
    for k in range(0, 17):
        eng.ctx.axioms.append(PYPOW(2, k) == 2 ** k)
    return V.vint(PYPOW(z3.IntVal(2), x))


GOV = z3.Function("GOV", z3.ArraySort(z3.IntSort(), z3.IntSort()), z3.IntSort(), z3.IntSort(), z3.IntSort())
BIG = 10**15


def field_array(seq: Val, field: str):
    """The z3 array holding scalar field `field` of a sequence of records."""
    rec = seq.shape.elem
    off = 0
    for name, sh in rec.fields.items():
        if name == field:
            assert len(sh.sorts()) == 1
            return seq.d[0][off]
        off += len(sh.sorts())
    raise KeyError(field)


def _be_parts(be: Val):
    ev = be.d["events"]
    return (field_array(ev, "tick"), field_array(ev, "timestamp"), field_array(ev, "bpm"),
            field_array(ev, "_proximal_bpm_event_index"), ev.d[1], be.d["resolution"].d)


def sorted_ticks_z3(eng, tick, n):
    return Q.forall(eng, z3.IntVal(0), n, lambda i: Q.forall(eng, i + 1, n, lambda j: tick[i] < tick[j], "sj"), "si")


def sp_sorted_ticks(eng, st, be):
    tick, ts, bpm, idx, n, res = _be_parts(eng.as_sym(be))
    return V.vbool(sorted_ticks_z3(eng, tick, n))


def gov_z3(eng, tick, n, t):
    """GOV(tick, n, t) = the largest k < n with tick[k] <= t.  Defined (one universally
    quantified axiom per tick array, triggered on GOV terms) whenever tick[0] <= t."""
    def body(g, tt):
        return z3.And(0 <= g, g < n, tick[g] <= tt, Q.forall(eng, g + 1, n, lambda j: tick[j] > tt, "gj"))
    if getattr(eng, "finite", None) is not None:
        # refutation search: instantiate the definition at this use
        g = GOV(tick, n, t)
        eng.ctx.axioms.append(z3.Implies(z3.And(n >= 1, tick[0] <= t), body(g, t)))
        return g
    key = ("gov", tick.get_id(), n.get_id())
    if key not in eng.ctx.spec_cache:
        eng.ctx.spec_cache[key] = True
        tt = z3.Int(V.fresh_name("gt"))
        g = GOV(tick, n, tt)
        eng.ctx.axioms.append(z3.ForAll([tt], z3.Implies(z3.And(n >= 1, tick[0] <= tt), body(g, tt)), patterns=[g]))
    return GOV(tick, n, t)


def sp_gov(eng, st, be, t):
    tick, ts, bpm, idx, n, res = _be_parts(eng.as_sym(be))
    return V.vint(gov_z3(eng, tick, n, eng._int(eng.as_sym(t))))


def ts_z3(eng, be, t, register_td=True):
    tick, ts, bpm, idx, n, res = _be_parts(be)
    g = gov_z3(eng, tick, n, t)
    sec = SEC(t - tick[g], bpm[g], res)
    td = eng.ctx.fm.td(sec) if (register_td and not getattr(eng, "quant_depth", 0)) else floats.TDf(sec)
    return ts[g] + td


def sp_TS(eng, st, be, t):
    """Spec timestamp of tick t: ts[g] + TD(SEC(t - tick[g], bpm[g], res)), g = gov(be, t)."""
    return V.vtd(ts_z3(eng, eng.as_sym(be), eng._int(eng.as_sym(t))))


def wf_z3(eng, be: Val):
    tick, ts, bpm, idx, n, res = _be_parts(be)
    chain = Q.forall(eng, z3.IntVal(0), n - 1, lambda k: z3.And(
        bpm[k] > 0, ts[k + 1] == ts[k] + floats.TDf(SEC(tick[k + 1] - tick[k], bpm[k], res))), "wk")
    idxs = Q.forall(eng, z3.IntVal(0), n, lambda k: idx[k] == k, "wk")
    return z3.And(res >= 1, n >= 1, tick[0] == 0, ts[0] == 0, sorted_ticks_z3(eng, tick, n), chain, idxs)


def sp_WF(eng, st, be):
    return V.vbool(wf_z3(eng, eng.as_sym(be)))


def env_z3(eng, be: Val):
    """Numeric envelope in which the float model is valid (implied by the properties' bounds)."""
    tick, ts, bpm, idx, n, res = _be_parts(be)
    return z3.And(res <= BIG, Q.forall(eng, z3.IntVal(0), n, lambda k: z3.And(
        tick[k] >= -BIG, tick[k] <= BIG, bpm[k] <= 10**9, z3.Or(bpm[k] <= 0, 1024 * bpm[k] >= 1)), "ek"))


def sp_ENV(eng, st, be):
    return V.vbool(env_z3(eng, eng.as_sym(be)))


def _rx_of(eng, key_val):
    from pyvc.objects import RxSym
    key = key_val.d.as_string() if not isinstance(key_val.shape, ConcS) else key_val.d
    if isinstance(key, str):
        attr = "_regex_prog"
        if "#" in key:
            key, attr = key.split("#")
        cls = eng.live_class(key)
        pat = getattr(cls, attr)
    else:
        pat = key
    return RxSym(pat.pattern, pat.groups)


def sp_rxm(eng, st, key, line):
    """line is in the language of the live class's shipped pattern."""
    rx = _rx_of(eng, key)
    eng.apply_rx_facts(rx)
    return V.vbool(rx.match(eng.as_sym(line).d))


def sp_rxg(eng, st, key, i, line):
    rx = _rx_of(eng, key)
    eng.apply_rx_facts(rx)
    return V.vstr(rx.group[V.concrete_int(eng.as_sym(i).d)](eng.as_sym(line).d))


def sp_rxg_none(eng, st, key, i, line):
    rx = _rx_of(eng, key)
    return V.vbool(rx.group_none[V.concrete_int(eng.as_sym(i).d)](eng.as_sym(line).d))


def _field_rx(eng, name):
    from pyvc.objects import RxSym
    from pyvc.source import live_module
    n = name.d.as_string() if not isinstance(name.shape, ConcS) else name.d
    spec = live_module("chartparse.metadata")._field_parsing_specs[n]
    rx = RxSym(spec.regex_prog.pattern, spec.regex_prog.groups)
    eng.apply_rx_facts(rx)
    return rx


def sp_fieldm(eng, st, name, line):
    """line matches the shipped recogniser of [Song] field `name`"""
    return V.vbool(_field_rx(eng, name).match(eng.as_sym(line).d))


def sp_fieldg(eng, st, name, line):
    """the value captured from line by the recogniser of field `name`"""
    return V.vstr(_field_rx(eng, name).group[1](eng.as_sym(line).d))


def sp_decok(eng, st, s):
    from pyvc.objects import DECOK
    return V.vbool(DECOK(eng.as_sym(s).d))


def sp_round3(eng, st, x):
    return V.vreal(eng.ctx.fm.round_ndigits(eng._num(eng.as_sym(x)), 3))


def sp_append(eng, st, seq, x):
    seq = eng.as_sym(seq)
    if seq.shape.elem is None:
        seq = V.vseq_empty(eng.as_sym(x).shape)
    return V.seq_append(seq, eng.as_sym(x))


def sp_extend(eng, st, seq, newlen, x):
    """seq extended to length newlen (>= len(seq)) with copies of x."""
    seq = eng.as_sym(seq)
    n = eng._int(eng.as_sym(newlen))
    xv = V.coerce(eng.as_sym(x), seq.shape.elem)
    k = z3.Int(V.fresh_name("xk"))
    arrs = [z3.Lambda([k], z3.If(k < seq.d[1], z3.Select(a, k), l)) for a, l in zip(seq.d[0], V.leaves(xv))]
    return Val(seq.shape, (arrs, n))


def sp_empty_ints(eng, st):
    return V.vseq_empty(INT)


def sp_slice(eng, st, seq, lo, hi):
    return V.seq_slice(eng.as_sym(seq), eng._int(eng.as_sym(lo)), eng._int(eng.as_sym(hi)))


_opaque_fns = {}


def view_leaves(v: Val):
    """Leaves of a value where a sequence is (base arrays, offset, length): a slice xs[a:b] and
    the triple (xs, a, b - a) flatten identically."""
    if isinstance(v.shape, SeqS):
        if v.view is not None:
            base, lo = v.view
            bl = view_leaves(base)
            return bl[:-2] + [z3.simplify(bl[-2] + lo), v.d[1]]
        return list(v.d[0]) + [z3.IntVal(0), v.d[1]]
    from pyvc.values import OptS, TupS, RecS, EnumS, UnionS
    s = v.shape
    if isinstance(s, OptS):
        return [v.d[0]] + view_leaves(v.d[1])
    if isinstance(s, TupS):
        return [l for i in v.d for l in view_leaves(i)]
    if isinstance(s, RecS):
        return [l for k in s.fields for l in view_leaves(v.d[k])]
    if isinstance(s, EnumS):
        return view_leaves(v.d)
    if isinstance(s, UnionS):
        return [v.d[0]] + [l for a in v.d[1] for l in view_leaves(a)]
    return V.leaves(v)


def sp_opaque(eng, st, name, *vals):
    """An uninterpreted predicate over the given values: the name of a callee's whole
    postcondition (introduced where the postcondition is assumed, unfolded only by reveal)."""
    nm = name.d.as_string()
    ls = [l for v in vals for l in view_leaves(eng.as_sym(v))]
    key = (nm, tuple(str(l.sort()) for l in ls))
    f = _opaque_fns.get(key)
    if f is None:
        f = z3.Function(f"{nm}_{len(_opaque_fns)}", *[l.sort() for l in ls], z3.BoolSort())
        _opaque_fns[key] = f
    return V.vbool(f(*ls))


def sp_forall_key_absent(eng, st, m):
    """The mapping has no key at all."""
    m = eng.as_sym(m)
    k = z3.Const(V.fresh_name("mk"), m.shape.key.sorts()[0])
    return V.vbool(z3.ForAll([k], z3.Not(z3.Select(m.d[0], k))))


def sp_tagname(eng, st, i, d):
    """header of the section holding track (instrument i, difficulty d): '<Difficulty><Instrument>'"""
    i, d = eng.as_sym(i), eng.as_sym(d)
    return V.vstr(z3.Concat(V.enum_value(d).d, V.enum_value(i).d))


def sp_pair_of_tag(eng, st, tag):
    """the (instrument, difficulty) pair whose section header is `tag`, or None.  The table is the
    closed expression of the .chart format, evaluated by the live interpreter, and the lookup is
    built exactly as the engine builds `tag in table` / `table[tag]`, so that the code's and the
    contract's lookups are the same term."""
    import itertools
    from pyvc.source import live_module
    from pyvc.values import OptS
    ins = live_module("chartparse.instrument")
    key = ("pair_table",)
    table = eng.ctx.spec_cache.get(key)
    if table is None:
        table = {d.value + i.value: (i, d) for i, d in itertools.product(ins.Instrument, ins.Difficulty)}
        eng.ctx.spec_cache[key] = table
    t = eng.as_sym(tag)
    present = eng.contains(V.vconc(table), t, st)
    val = eng.concdict_get(table, t, st)
    return Val(OptS(val.shape), (z3.Not(present), val))


def sp_lo_of(eng, st, v):
    """first index of an islice view into its base list"""
    return V.vint(v.d[0])


def sp_hi_of(eng, st, v):
    return V.vint(v.d[1])


def sp_keys_of(eng, st, d):
    """insertion-ordered key sequence of an ordered dict value"""
    return eng.as_sym(d).d[1]


def sp_forall_keys(eng, st, d, fn):
    d = eng.as_sym(d)
    m = d.d[0] if hasattr(d.shape, "map") else d
    ks = m.shape.key
    from pyvc.values import EnumS
    if getattr(eng, "finite", None) is not None and isinstance(ks, EnumS) and ks.ordinal:
        # refutation search: the key domain is a finite enumeration, expand it (quantifier-free)
        parts = []
        for i in range(len(ks.members)):
            kv = z3.IntVal(i)
            parts.append(z3.Implies(z3.Select(m.d[0], kv), _truth(eng, st, eng.call_closure(fn.d, [V.from_leaves(ks, [kv])], {}, st))))
        return V.vbool(z3.And(parts))
    k = z3.Const(V.fresh_name("fk"), ks.sorts()[0])
    body = _truth(eng, st, eng.call_closure(fn.d, [V.from_leaves(ks, [k])], {}, st))
    return V.vbool(z3.ForAll([k], z3.Implies(z3.Select(m.d[0], k), body)))


def sp_same(eng, st, a, b):
    """a is the very value b (leafwise identical representation): used for 'x is the result of
    F(...)', avoiding element-by-element equality of the sequences inside x"""
    a, b = eng.as_sym(a), eng.as_sym(b)
    if a.shape != b.shape:
        b = V.coerce(b, a.shape)
    return V.vbool(V.raw_eq(a, b))


def sp_fn_result(eng, st, name, *args):
    """The (deterministic) result of the function under contract `name` on the given arguments."""
    c = eng.reg.by_name(name.d.as_string())
    shapes = [sh for p, sh in c.params.items() if not hasattr(sh, "get")]
    vals = []
    for a, sh in zip(args, shapes):
        a = eng.as_sym(a)
        from pyvc.values import OptS
        if isinstance(a.shape, OptS) and not isinstance(sh, OptS):
            a = a.d[1]          # contract expressions are total: the value if present
        vals.append(V.coerce(a, sh))
    return eng.pure_result(c, vals)


def sp_callee_ghost(eng, st, name):
    """Ghost result `name` of the most recent contract call (for threading ghost results up)."""
    return eng.last_ghost_results[name.d.as_string()]


def sp_alt(eng, st, u, i):
    """The i-th alternative of a union value (meaningful when its tag is i)."""
    u = eng.as_sym(u)
    return u.d[1][V.concrete_int(eng.as_sym(i).d)]


def sp_tag(eng, st, u):
    return V.vint(eng.as_sym(u).d[0])


def register(reg):
    f = reg.spec_funcs
    f["append"] = sp_append
    f["extend"] = sp_extend
    f["empty_ints"] = sp_empty_ints
    f["slice"] = sp_slice
    f["forall_key_absent"] = sp_forall_key_absent
    f["tagname"] = sp_tagname
    f["pair_of_tag"] = sp_pair_of_tag
    f["lo_of"] = sp_lo_of
    f["hi_of"] = sp_hi_of
    f["keys_of"] = sp_keys_of
    f["forall_keys"] = sp_forall_keys
    f["same"] = sp_same
    f["fn_result"] = sp_fn_result
    f["callee_ghost"] = sp_callee_ghost
    f["opaque"] = sp_opaque
    f["alt"] = sp_alt
    f["tag"] = sp_tag
    f["rxm"] = sp_rxm
    f["rxg"] = sp_rxg
    f["rxg_none"] = sp_rxg_none
    f["decok"] = sp_decok
    f["fieldm"] = sp_fieldm
    f["fieldg"] = sp_fieldg
    f["round3"] = sp_round3
    f["sorted_ticks"] = sp_sorted_ticks
    f["gov"] = sp_gov
    f["TS"] = sp_TS
    f["WF"] = sp_WF
    f["ENV"] = sp_ENV
    f["implies"] = sp_implies
    f["iff"] = sp_iff
    f["forall"] = sp_forall
    f["exists"] = sp_exists
    f["SEC"] = sp_SEC
    f["TDF"] = sp_TDF
    f["us"] = sp_us
    f["micros"] = sp_micros
    f["real"] = sp_real
    f["xdiv"] = sp_exact_div
    f["xmul"] = sp_exact_mul
    f["xsub"] = sp_exact_sub
    f["xadd"] = sp_exact_add
    f["absr"] = sp_absr
    f["U"] = sp_U
    f["RN"] = sp_RN
    f["pyint"] = sp_pyint
    f["pow2"] = sp_pow2
