"""Contracts for Chart.from_file / Chart.from_filepath (C06, C13; safety instance for C18)."""
from pyvc.contract import Contract, LoopSpec, Conc, Ghost
from pyvc.values import INT, BOOL, STR, OptS, TupS, SeqS, DictS, ViewS, MapS
from pyvc.objects import SymbolicFile
from .c_sync import _cls, BIG

C = "chartparse.chart:"
_FP = SymbolicFile()


def register(reg, S):
    WT = OptS(SeqS(TupS([S["Instrument"], S["Difficulty"]])))
    wf = [(n, t.replace("lines", "g_lines")) for n, t in S["wf_file"]]
    B, TSK, A = "chartparse.sync:BPMEvent.ParsedData", "chartparse.sync:TimeSignatureEvent.ParsedData", "chartparse.sync:AnchorEvent.ParsedData"
    G = ["chartparse.globalevents:LyricEvent.ParsedData", "chartparse.globalevents:SectionEvent.ParsedData", "chartparse.globalevents:TextEvent.ParsedData"]
    L = "g_lines[i]"
    tokens = ("forall(0, len(g_lines), lambda i: " + " and ".join(
        [f"implies(rxm('{B}', {L}), pyint(rxg('{B}', 1, {L})) <= {BIG} and pyint(rxg('{B}', 2, {L})) <= 10**11)",
         f"implies(rxm('{TSK}', {L}), pyint(rxg('{TSK}', 1, {L})) <= {BIG})",
         f"implies(fieldm('resolution', {L}), pyint(fieldg('resolution', {L})) <= {BIG})"]
        + [f"implies(rxm('{p}', {L}), pyint(rxg('{p}', 1, {L})) <= {BIG})" for p in G]) + ")")
    itok = S["itok"].replace("lines", "g_lines")
    ghost = dict(g_lines=SeqS(STR), g_k=INT, g_start=SeqS(INT), g_tag=SeqS(STR))
    body = lambda j: f"slice(g_lines, g_start[{j}] + 2, g_start[{j} + 1] - 1)"
    be = "result.sync_track.bpm_events"
    selected = lambda p: f"(want_tracks is None or {p} in want_tracks)"
    ITS = "chartparse.instrument:InstrumentTrack.from_chart_lines[safety]"

    # ghost: per section j, whether its header names a track (g_has[j]) and which pair (g_pi[j], g_pd[j]):
    # keeps the 40-entry header table out of the routing invariant
    pairs_def = ("pairs-of-sections",
                 "len(g_has) == g_k and len(g_pi) == g_k and len(g_pd) == g_k and forall(0, g_k, lambda j: iff(g_has[j], pair_of_tag(g_tag[j]) is not None) "
                 "and implies(g_has[j], g_pi[j] == pair_of_tag(g_tag[j])[0] and g_pd[j] == pair_of_tag(g_tag[j])[1]))")

    def routed(tracks, upto, be_):
        return [
            # the header table is the inverse of '<Difficulty><Instrument>' (distinct sections have distinct pairs)
            ("header-names-its-pair", "forall(0, g_k, lambda j: implies(g_has[j], tagname(g_pi[j], g_pd[j]) == g_tag[j]))"),
            # hence (tags are distinct) no two sections name the same pair: stated once so that the
            # frame step of the store below does not have to redo the string argument
            ("sections-name-distinct-pairs", "forall(0, g_k, lambda a: forall(a + 1, g_k, lambda b: implies(g_has[a] and g_has[b], not (g_pi[a] == g_pi[b] and g_pd[a] == g_pd[b]))))"),
            ("selected-sections-parsed-into-their-track",
             f"forall(0, {upto}, lambda j: implies(g_has[j] and {selected('(g_pi[j], g_pd[j])')}, "
             f"g_pi[j] in {tracks} and g_pd[j] in {tracks}[g_pi[j]] "
             f"and same({tracks}[g_pi[j]][g_pd[j]], fn_result('{ITS}', g_pi[j], g_pd[j], {body('j')}, {be_}))))"),
            ("no-other-track",
             f"forall_keys({tracks}, lambda i: forall_keys({tracks}[i], lambda d: {selected('(i, d)')} and exists(0, {upto}, lambda j: g_has[j] and g_pi[j] == i and g_pd[j] == d)))"),
        ]
    common = dict(
        params=dict(cls=_cls(C + "Chart"), fp=Conc(lambda: _FP, "text-file"), want_tracks=WT),
        result=S["Chart"], ghost_params=ghost, pure=False, silent=False)
    slim = {"chartparse.metadata:Metadata.from_chart_lines": ["resolution/comes-from"],
            "chartparse.sync:SyncTrack.from_chart_lines": ["bpm/well-formed", "bpm/envelope"],
            "chartparse.globalevents:GlobalEventsTrack.from_chart_lines": [],
            "chartparse.instrument:InstrumentTrack.from_chart_lines": []}
    P = "chartparse.chart:Chart._partition_lines_by_data_section"
    pre = wf + [("tokens-bounded", tokens), ("instrument-tokens-bounded", itok)]
    allowed = {"ValueError": "True", "MissingRequiredField": "True"}
    trivial = {0: LoopSpec(invariants=[("trivial", "True")])}
    modes = {"chartparse.instrument:InstrumentTrack.from_chart_lines": "safety"}
    # The postcondition of from_file is proved in three groups (three units over the same real
    # body), each importing only the callee facts it needs -- the full conjunction drowns the solver.
    reg.add(Contract(
        C + "Chart.from_file", inst="sections", **common, requires=pre, raise_allowed=allowed,
        ensures=[
            ("song-feeds-metadata", f"forall(0, g_k, lambda j: implies(g_tag[j] == 'Song', same(result.metadata, fn_result('chartparse.metadata:Metadata.from_chart_lines', {body('j')}))))"),
            ("synctrack-feeds-tempo-and-meter", f"forall(0, g_k, lambda j: implies(g_tag[j] == 'SyncTrack', same(result.sync_track, fn_result('chartparse.sync:SyncTrack.from_chart_lines', result.metadata.resolution, {body('j')}))))"),
            ("events-feed-global-events", f"forall(0, g_k, lambda j: implies(g_tag[j] == 'Events', same(result.global_events_track, fn_result('chartparse.globalevents:GlobalEventsTrack.from_chart_lines', {body('j')}, {be}))))"),
        ],
        loops=trivial, locals={"instrument_tracks": S["TrackMap"]}, callee_modes=modes, call_site=False,
        callee_ensures=dict(slim, **{P: ["one-entry", "each-section"]}),
        # file-level glue (see c_chart.FILE_BODY): which section body, which resolution and which
        # tempo map each section parser is given is part of every property stated about a chart
        props=["C06", "C13", "C14", "C10", "C08", "C09", "C01", "C04", "C11", "C12", "C15"],
        clause_props={"song-feeds-metadata": ["C06", "C13", "C14", "C10"],
                      "synctrack-feeds-tempo-and-meter": ["C06", "C13", "C14", "C08", "C01", "C04", "C11", "C12", "C15"],
                      "events-feed-global-events": ["C06", "C13", "C14", "C09", "C01", "C11", "C12"]}))
    reg.add(Contract(
        C + "Chart.from_file", inst="required-sections", **common, requires=pre, raise_allowed=allowed,
        must_raise=[f"not exists(0, g_k, lambda j: g_tag[j] == '{t}')" for t in ("Song", "SyncTrack", "Events")],
        loops=trivial, locals={"instrument_tracks": S["TrackMap"]}, callee_modes=modes, call_site=False,
        callee_ensures=dict(slim, **{P: ["no-other-key"]}),
        props=["C06"]))
    reg.add(Contract(
        C + "Chart.from_file", inst="routing", **dict(common, ghost_params=dict(ghost, g_has=SeqS(BOOL), g_pi=SeqS(S["Instrument"]), g_pd=SeqS(S["Difficulty"]))),
        requires=pre + [pairs_def], raise_allowed=allowed,
        ensures=routed("result.instrument_tracks", "g_k", be),
        loops={0: LoopSpec(invariants=routed("instrument_tracks", "_it", "sync_track.bpm_events"))},
        ghosts=[Ghost("instrument_difficulty_pair = instrument_track_name_to_instrument_difficulty_pair[header_tag]",
                      "hint('current-section-pair', header_tag == g_tag[_it] and g_has[_it] and instrument_difficulty_pair[0] == g_pi[_it] and instrument_difficulty_pair[1] == g_pd[_it])\n"
                      "hint('current-section-body', lo_of(data_section_lines) == g_start[_it] + 2 and hi_of(data_section_lines) == g_start[_it + 1] - 1 "
                      "and 0 <= g_start[_it] + 2 and g_start[_it] + 2 <= g_start[_it + 1] - 1 and g_start[_it + 1] - 1 <= len(g_lines))\n"
                      "rebind('instrument_difficulty_pair', (g_pi[_it], g_pd[_it]))"),
                # frame of the store: no earlier section names the pair being stored
                Ghost("instrument_tracks.setdefault(instrument, dict())[difficulty] = track",
                      "hint('no-earlier-section-names-this-pair', forall(0, _it, lambda j: implies(g_has[j], not (g_pi[j] == g_pi[_it] and g_pd[j] == g_pd[_it]))))")],
        locals={"instrument_tracks": S["TrackMap"]}, callee_modes=modes, call_site=False,
        callee_ensures=dict(slim, **{P: ["one-entry", "each-section"]}),
        props=["C06", "C13", "C14", "C02", "C03", "C04", "C05", "C07", "C01", "C11", "C12"],
        clause_props=dict({n: ["C06", "C13"] for n in ("header-names-its-pair", "sections-name-distinct-pairs", "no-other-track",
                                                        "current-section-pair", "no-earlier-section-names-this-pair", "rebind-")},
                          **{"selected-sections-parsed-into-their-track": ["C06", "C13", "C14", "C02", "C03", "C04", "C05", "C07", "C01", "C11", "C12"],
                             "current-section-body": ["C06", "C13", "C14", "C02", "C07"]})))

    # ------------------------------------------------------------------ safety instances (C18)
    reg.add(Contract(
        C + "Chart.from_file", inst="safety", mode="safety",
        params=dict(cls=_cls(C + "Chart"), fp=Conc(lambda: _FP, "text-file"), want_tracks=WT),
        result=S["Chart"], ghost_params=dict(g_lines=SeqS(STR)), pure=False, silent=False,
        requires=[("tokens-bounded", tokens), ("instrument-tokens-bounded", itok)],
        raise_allowed={"ValueError": "True", "RegexNotMatchError": "True", "MissingRequiredField": "True"},
        loops=trivial, locals={"instrument_tracks": S["TrackMap"]},
        callee_ensures=slim,
        props=["C18"]))
    reg.add(Contract(
        C + "Chart.from_filepath", inst="safety", mode="safety",
        params=dict(cls=_cls(C + "Chart"), path=Conc(lambda: "some.chart", "path"), want_tracks=WT),
        result=S["Chart"], ghost_params=dict(g_lines=SeqS(STR)), pure=False, silent=False,
        requires=[("tokens-bounded", tokens), ("instrument-tokens-bounded", itok)],
        raise_allowed={"ValueError": "True", "RegexNotMatchError": "True", "MissingRequiredField": "True"},
        props=["C06", "C18"]))
