"""Contracts for Chart.from_file / Chart.from_filepath (C06, C13; safety instance for C18)."""
from pyvc.contract import Contract, LoopSpec, Conc, Ghost
from pyvc.values import INT, STR, OptS, TupS, SeqS, DictS, ViewS, MapS
from pyvc.objects import SymbolicFile
from .c_sync import _cls, BIG

C = "chartparse.chart:"
_FP = SymbolicFile()


def register(reg, S):
    WT = OptS(SeqS(TupS([S["Instrument"], S["Difficulty"]])))
    wf = [(n, t.replace("lines", "g_lines")) for n, t in S["wf_file"]]
    B, TSK, A = "chartparse.sync:BPMEvent.ParsedData", "chartparse.sync:TimeSignatureEvent.ParsedData", "chartparse.sync:AnchorEvent.ParsedData"
    G = ["chartparse.globalevents:LyricEvent.ParsedData", "chartparse.globalevents:SectionEvent.ParsedData", "chartparse.globalevents:TextEvent.ParsedData"]
    L = "g_lines[i]"
    tokens = ("forall(0, len(g_lines), lambda i: " + " and ".join(
        [f"implies(rxm('{B}', {L}), pyint(rxg('{B}', 1, {L})) <= {BIG} and pyint(rxg('{B}', 2, {L})) <= 10**11)",
         f"implies(rxm('{TSK}', {L}), pyint(rxg('{TSK}', 1, {L})) <= {BIG})",
         f"implies(fieldm('resolution', {L}), pyint(fieldg('resolution', {L})) <= 2**50)"]
        + [f"implies(rxm('{p}', {L}), pyint(rxg('{p}', 1, {L})) <= {BIG})" for p in G]) + ")")
    itok = S["itok"].replace("lines", "g_lines")
    ghost = dict(g_lines=SeqS(STR), g_k=INT, g_start=SeqS(INT), g_tag=SeqS(STR))
    body = lambda j: f"slice(g_lines, g_start[{j}] + 2, g_start[{j} + 1] - 1)"
    be = "result.sync_track.bpm_events"
    selected = lambda p: f"(want_tracks is None or {p} in want_tracks)"
    ITS = "chartparse.instrument:InstrumentTrack.from_chart_lines[safety]"

    def routed(tracks, upto, be_):
        return [
            ("selected-sections-parsed-into-their-track",
             f"forall(0, {upto}, lambda j: implies(pair_of_tag(g_tag[j]) is not None and {selected('pair_of_tag(g_tag[j])')}, "
             f"pair_of_tag(g_tag[j])[0] in {tracks} and pair_of_tag(g_tag[j])[1] in {tracks}[pair_of_tag(g_tag[j])[0]] "
             f"and {tracks}[pair_of_tag(g_tag[j])[0]][pair_of_tag(g_tag[j])[1]] == fn_result('{ITS}', pair_of_tag(g_tag[j])[0], pair_of_tag(g_tag[j])[1], {body('j')}, {be_})))"),
            ("no-other-track",
             f"forall_keys({tracks}, lambda i: forall_keys({tracks}[i], lambda d: {selected('(i, d)')} and exists(0, {upto}, lambda j: g_tag[j] == tagname(i, d))))"),
        ]
    common = dict(
        params=dict(cls=_cls(C + "Chart"), fp=Conc(lambda: _FP, "text-file"), want_tracks=WT),
        result=S["Chart"], ghost_params=ghost, pure=False, silent=False)
    reg.add(Contract(
        C + "Chart.from_file", **common,
        requires=wf + [("tokens-bounded", tokens), ("instrument-tokens-bounded", itok)],
        raise_allowed={"ValueError": "True", "MissingRequiredField": "True"},
        must_raise=[f"not exists(0, g_k, lambda j: g_tag[j] == '{t}')" for t in ("Song", "SyncTrack", "Events")],
        ensures=[
            ("song-feeds-metadata", f"forall(0, g_k, lambda j: implies(g_tag[j] == 'Song', result.metadata == fn_result('chartparse.metadata:Metadata.from_chart_lines', {body('j')})))"),
            ("synctrack-feeds-tempo-and-meter", f"forall(0, g_k, lambda j: implies(g_tag[j] == 'SyncTrack', result.sync_track == fn_result('chartparse.sync:SyncTrack.from_chart_lines', result.metadata.resolution, {body('j')})))"),
            ("events-feed-global-events", f"forall(0, g_k, lambda j: implies(g_tag[j] == 'Events', result.global_events_track == fn_result('chartparse.globalevents:GlobalEventsTrack.from_chart_lines', {body('j')}, {be})))"),
        ] + routed("result.instrument_tracks", "g_k", be),
        loops={0: LoopSpec(invariants=routed("instrument_tracks", "_it", "sync_track.bpm_events"))},
        locals={"instrument_tracks": S["TrackMap"]},
        callee_modes={"chartparse.instrument:InstrumentTrack.from_chart_lines": "safety"},
        props=["C06", "C13"]))
