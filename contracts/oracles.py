"""Native oracles for the bounded stand-in: independent straightforward computations of what a
function under contract must return, used only when its obligations are undecided (contract
binding lost, code outside the subset) and to find failing inputs for refuted obligations.
Never counted as proof."""
from __future__ import annotations

import logging


class _Capture(logging.Handler):
    def __init__(self):
        super().__init__()
        self.records = []

    def emit(self, record):
        self.records.append(record)


def first_kind(kinds, line):
    for t in kinds:
        if t._regex_prog.match(line):
            return t
    return None


def expected_partition(kinds, lines):
    out = {t: [] for t in kinds}
    unmatched = 0
    for line in lines:
        t = first_kind(kinds, line)
        if t is None:
            unmatched += 1
        else:
            out[t].append(t.from_chart_line(line))
    return out, unmatched


def run_with_log(fn):
    lg = logging.getLogger("chartparse.track")
    h = _Capture()
    old = lg.level
    lg.addHandler(h)
    lg.setLevel(logging.DEBUG)
    prop = lg.propagate
    lg.propagate = False
    try:
        try:
            return fn(), None, h.records
        except Exception as e:
            return None, e, h.records
    finally:
        lg.removeHandler(h)
        lg.setLevel(old)
        lg.propagate = prop


def dispatcher_oracle(kinds_of):
    def oracle(reg, c, args, call):
        kinds = kinds_of(args)
        lines = list(args["lines"])
        want, unmatched = expected_partition(kinds, lines)
        got, exc, recs = run_with_log(call)
        if exc is not None:
            return {"clause": "the dispatcher raises nothing", "observed": f"raised {type(exc).__name__}: {exc}"[:200]}
        lists = [got[t] for t in kinds] if not isinstance(got, tuple) else None
        if lists is None:
            order = c.oracle_order
            lists = [None] * len(kinds)
            for pos, j in enumerate(order):
                lists[j] = got[pos]
        import os
        prop = os.environ.get("VERIF_CURRENT_PROP")
        for j, (t, g) in enumerate(zip(kinds, lists)):
            if not c.clause_relevant(f"kind{j}-", prop):
                continue        # this kind's list carries another property's statement (Contract.clause_props)
            if list(g) != want[t]:
                return {"clause": f"data of kind {t.__qualname__} = the lines first claimed by it, decoded, in file order",
                        "observed": f"got {g!r}, want {want[t]!r}"[:500]}
        warn = [r for r in recs if r.levelno >= logging.WARNING]
        if len(warn) != unmatched and c.clause_relevant("conservation", prop):
            return {"clause": "one 'unparsable line' warning per line no kind claims", "observed": f"{len(warn)} warnings for {unmatched} unclaimed lines"}
        return None
    return oracle


def section_oracle(build_expected):
    def oracle(reg, c, args, call):
        got, exc, recs = run_with_log(call)
        try:
            want, wexc = build_expected(args), None
        except Exception as e:
            want, wexc = None, e
        if (exc is None) != (wexc is None):
            return {"clause": "result = builders applied to the lines first claimed by each kind",
                    "observed": f"real: {('raised ' + type(exc).__name__) if exc else 'returned'}; reference: {('raises ' + type(wexc).__name__) if wexc else 'returns'}"}
        if exc is None and got != want:
            return {"clause": "result = builders applied to the lines first claimed by each kind", "observed": f"got {got!r}\\nwant {want!r}"[:700]}
        return None
    return oracle


def attach(reg):
    import chartparse.chart  # noqa
    import chartparse.track as track
    from chartparse.sync import SyncTrack, BPMEvent, TimeSignatureEvent, AnchorEvent
    from chartparse.instrument import InstrumentTrack, NoteEvent, StarPowerEvent, TrackEvent
    from chartparse.globalevents import GlobalEventsTrack, TextEvent, SectionEvent, LyricEvent
    SYNC = (BPMEvent.ParsedData, TimeSignatureEvent.ParsedData, AnchorEvent.ParsedData)
    INST = (NoteEvent.ParsedData, StarPowerEvent.ParsedData, TrackEvent.ParsedData)
    GLOB = (LyricEvent.ParsedData, SectionEvent.ParsedData, TextEvent.ParsedData)
    for label, kinds in (("sync", SYNC), ("instrument", INST), ("globalevents", GLOB)):
        c = reg.by_name(f"chartparse.track:parse_data_from_chart_lines[{label}]")
        c.native_oracle = dispatcher_oracle(lambda a, k=kinds: k)
    for name, kinds, order in (("chartparse.sync:SyncTrack._parse_data_from_chart_lines", SYNC, [1, 0, 2]),
                               ("chartparse.instrument:InstrumentTrack._parse_data_from_chart_lines", INST, [0, 1, 2]),
                               ("chartparse.globalevents:GlobalEventsTrack._parse_data_from_chart_lines", GLOB, [2, 1, 0])):
        c = reg.by_name(name)
        c.oracle_order = order
        c.native_oracle = dispatcher_oracle(lambda a, k=kinds: k)
    b = track.build_events_from_data

    def sync_expected(a):
        p, _ = expected_partition(SYNC, list(a["lines"]))
        be = b(BPMEvent, p[SYNC[0]], a["resolution"])
        return SyncTrack(time_signature_events=b(TimeSignatureEvent, p[SYNC[1]], be), bpm_events=be, anchor_events=b(AnchorEvent, p[SYNC[2]]))

    def glob_expected(a):
        p, _ = expected_partition(GLOB, list(a["lines"]))
        be = a["bpm_events"]
        return GlobalEventsTrack(text_events=b(TextEvent, p[GLOB[2]], be), section_events=b(SectionEvent, p[GLOB[1]], be), lyric_events=b(LyricEvent, p[GLOB[0]], be))

    def inst_expected(a):
        p, _ = expected_partition(INST, list(a["lines"]))
        be = a["bpm_events"]
        sp = b(StarPowerEvent, p[INST[1]], be)
        te = b(TrackEvent, p[INST[2]], be)
        ne = InstrumentTrack._build_note_events_from_data(p[INST[0]], sp, be)
        return InstrumentTrack(instrument=a["instrument"], difficulty=a["difficulty"], note_events=ne, star_power_events=sp, track_events=te)
    reg.by_name("chartparse.sync:SyncTrack.from_chart_lines").native_oracle = section_oracle(sync_expected)
    reg.by_name("chartparse.globalevents:GlobalEventsTrack.from_chart_lines").native_oracle = section_oracle(glob_expected)
    reg.by_name("chartparse.instrument:InstrumentTrack.from_chart_lines").native_oracle = section_oracle(inst_expected)
