"""Contracts of the five tempo-map-consuming constructors outside sync.py (star power, track
event, text/section/lyric) — same template as TimeSignatureEvent.from_parsed_data."""
from pyvc.contract import Contract
from pyvc.values import OptS, STR
from .c_sync import _cls

KINDS = {
    # label: (function key, cls path, data shape name, event shape name, payload ensures)
    "StarPowerEvent": ("chartparse.instrument:SpecialEvent.from_parsed_data", "chartparse.instrument:StarPowerEvent",
                       "StarPowerDataLine", "StarPowerEvent", [("sustain", "result.sustain == data.sustain")]),
    "TrackEvent": ("chartparse.instrument:TrackEvent.from_parsed_data", "chartparse.instrument:TrackEvent",
                   "TrackData", "TrackEvent", [("value", "result.value == data.value")]),
    "TextEvent": ("chartparse.globalevents:GlobalEvent.from_parsed_data", "chartparse.globalevents:TextEvent",
                  "TextData", "TextEvent", [("value", "result.value == data.value")]),
    "SectionEvent": ("chartparse.globalevents:GlobalEvent.from_parsed_data", "chartparse.globalevents:SectionEvent",
                     "SectionData", "SectionEvent", [("value", "result.value == data.value")]),
    "LyricEvent": ("chartparse.globalevents:GlobalEvent.from_parsed_data", "chartparse.globalevents:LyricEvent",
                   "LyricData", "LyricEvent", [("value", "result.value == data.value")]),
}


def register(reg, S):
    t = reg.ts_ctor
    for label, (key, clsp, dname, ename, payload) in KINDS.items():
        reg.add(Contract(
            key, inst=label,
            params=dict(cls=_cls(clsp), data=S[dname], prev_event=OptS(S[ename]), bpm_events=S["BPMEvents"]),
            result=S[ename], requires=t["be_pre"], raises=t["raises"], ensures=t["post"] + payload,
            # the payload clauses (value / sustain carried over verbatim) are what C07 (instrument
            # kinds) and C09 (global event kinds) say about the EVENT, beyond the decoded datum
            # (the star-power phrase list that C05 quantifies over is built from the S data by this constructor)
            props=["C01", "C11", "C12"] + (["C09"] if "globalevents" in key else ["C07"]) + (["C05"] if label == "StarPowerEvent" else []),
            clause_props={"time-is-TS": ["C01", "C11", "C12"], "index-": ["C01", "C11", "C12"],
                          payload[0][0]: (["C09"] if "globalevents" in key else ["C07"]) + (["C05"] if label == "StarPowerEvent" else [])}))

    # line decoders of the three global event kinds (one inherited function, three classes)
    for kind in ("Text", "Section", "Lyric"):
        K = f"chartparse.globalevents:{kind}Event.ParsedData"
        reg.add(Contract(
            "chartparse.globalevents:GlobalEvent.ParsedData.from_chart_line", inst=f"{kind}Event",
            params=dict(cls=_cls(K), line=STR), result=S[f"{kind}Data"],
            raises={"RegexNotMatchError": f"not rxm('{K}', line)"},
            ensures=[("tick", f"result.tick == pyint(rxg('{K}', 1, line))"),
                     ("value-verbatim", f"result.value == rxg('{K}', 2, line)")],
            props=["C09", "C14", "C18"]))
        pat = _cls(K).get()._regex_prog.pattern
        reg.rx_facts.setdefault(pat, []).extend([(1, "digits")])
