"""Contracts for chartparse/instrument.py."""
from pyvc.contract import Contract, LoopSpec, Conc, Ghost
from pyvc.values import INT, BOOL, REAL, TD, STR, NONE, OptS, TupS, SeqS, UnionS
from .c_sync import _cls, BIG

I = "chartparse.instrument:"
LANES = range(5)


def longest_spec(s, r):
    """`r` is the longest sustain of complex sustain `s` (text)."""
    t = f"alt({s}, 1)"
    ge = " and ".join(f"({t}[{l}] is None or {r} >= {t}[{l}])" for l in LANES)
    eq = " or ".join(f"({t}[{l}] is not None and {r} == {t}[{l}])" for l in LANES)
    return (f"implies(tag({s}) == 0, {r} == alt({s}, 0)) and "
            f"implies(tag({s}) == 1, ({ge}) and ({eq}))")


def register(reg, S):
    NTI, NOTE, SPE, NE = S["NoteTrackIndex"], S["Note"], S["StarPowerEvent"], S["NoteEvent"]
    CS, ST = S["ComplexSustain"], S["SustainTuple"]

    # ------------------------------------------------------------------ small predicates
    reg.add(Contract(I + "NoteTrackIndex.is_5_note", params=dict(self=NTI), result=BOOL,
                     ensures=[("five-lanes", "result == (0 <= self.value <= 4)")], props=["C03"]))
    reg.add(Contract(I + "Note.is_chord", params=dict(self=NOTE), result=BOOL,
                     ensures=[("two-or-more-lanes", "result == (self.value[0] + self.value[1] + self.value[2] + self.value[3] + self.value[4] >= 2)")],
                     props=["C04"]))
    for cls_label, shp in (("StarPowerEvent", SPE),):
        reg.add(Contract(I + "SpecialEvent.end_tick", inst=cls_label, params=dict(self=shp), result=INT,
                         ensures=[("end", "result == self.tick + self.sustain")], props=["C05"]))
        reg.add(Contract(I + "SpecialEvent.tick_is_after_event", inst=cls_label, params=dict(self=shp, tick=INT), result=BOOL,
                         ensures=[("at-or-after-end", "result == (tick >= self.tick + self.sustain)")], props=["C05"]))
        reg.add(Contract(I + "SpecialEvent.tick_is_during_event", inst=cls_label, params=dict(self=shp, tick=INT), result=BOOL,
                         ensures=[("half-open", "result == (self.tick <= tick and tick < self.tick + self.sustain)")], props=["C05"]))

    # ------------------------------------------------------------------ sustains
    t = "sustain_tuple"
    all_none = " and ".join(f"{t}[{l}] is None" for l in LANES)
    # v is the common value of all non-None slots
    def all_eq(v):
        return " and ".join(f"({t}[{l}] is None or {t}[{l}] == {v})" for l in LANES)
    some_is = lambda v: " or ".join(f"({t}[{l}] is not None and {t}[{l}] == {v})" for l in LANES)
    uniform = " and ".join(f"({t}[{a}] is None or {t}[{b}] is None or {t}[{a}] == {t}[{b}])"
                           for a in LANES for b in LANES if a < b)
    reg.add(Contract(
        I + "_refined_sustain_tuple", params={t: ST}, result=CS,
        ensures=[("all-none-is-zero", f"implies({all_none}, tag(result) == 0 and alt(result, 0) == 0)"),
                 ("uniform-is-int", f"implies(not ({all_none}) and ({uniform}), tag(result) == 0 and ({some_is('alt(result, 0)')}))"),
                 ("nonuniform-is-tuple", f"implies(not ({uniform}), tag(result) == 1 and alt(result, 1) == {t})")],
        props=["C03"]))
    reg.add(Contract(
        I + "NoteEvent._longest_sustain", params=dict(sustain=CS), result=INT,
        raises={"ValueError": "tag(sustain) == 1 and " + " and ".join(f"alt(sustain, 1)[{l}] is None" for l in LANES)},
        ensures=[("longest", longest_spec("sustain", "result"))], props=["C03"]))
    reg.add(Contract(I + "NoteEvent._end_tick", params=dict(tick=INT, sustain=INT), result=INT,
                     ensures=[("end", "result == tick + sustain")], props=["C03"]))
    reg.add(Contract(
        I + "NoteEvent.longest_sustain", params=dict(self=NE), result=INT,
        raises={"ValueError": "tag(self.sustain) == 1 and " + " and ".join(f"alt(self.sustain, 1)[{l}] is None" for l in LANES)},
        ensures=[("longest", longest_spec("self.sustain", "result"))], props=["C03"]))

    # ------------------------------------------------------------------ lanes of a tick group
    idx = lambda k: f"datas[{k}].note_track_index.value"
    reg.add(Contract(
        I + "Note.from_parsed_datas", params=dict(cls=_cls(I + "Note"), datas=SeqS(S["NoteData"])), result=NOTE,
        ensures=[(f"lane{l}-iff-written", f"iff(result.value[{l}] == 1, exists(0, len(datas), lambda k: {idx('k')} == {l}))") for l in LANES]
        + [("bits", " and ".join(f"(result.value[{l}] == 0 or result.value[{l}] == 1)" for l in LANES))],
        loops={0: LoopSpec(invariants=[(f"lane{l}", f"(n[{l}] == 0 or n[{l}] == 1) and iff(n[{l}] == 1, exists(0, _it, lambda k: {idx('k')} == {l}))") for l in LANES])},
        # (the lane clauses of NoteEvent.from_parsed_data are C02's, C03's and C04's: so is their source)
        props=["C02", "C03", "C04"]))
    group_pre = [("nonempty", "len(datas) >= 1"),
                 ("one-datum-per-index", f"forall(0, len(datas), lambda i: forall(i + 1, len(datas), lambda j: {idx('i')} != {idx('j')}))"),
                 ("open-comes-first", f"forall(1, len(datas), lambda k: {idx('k')} != 7)")]
    reg.group_pre = group_pre
    r = "result"
    sustain_post = lambda r: [
        ("open", f"implies({idx(0)} == 7, tag({r}) == 0 and alt({r}, 0) == datas[0].sustain)"),
        ("each-lane-length", f"implies({idx(0)} != 7, forall(0, len(datas), lambda k: implies(0 <= {idx('k')} <= 4, "
                             f"implies(tag({r}) == 0, alt({r}, 0) == datas[k].sustain) and implies(tag({r}) == 1, alt({r}, 1)[{idx('k')}] == datas[k].sustain))))"),
        ("inactive-slots-empty", f"implies({idx(0)} != 7 and tag({r}) == 1, " + " and ".join(
            f"implies(alt({r}, 1)[{l}] is not None, exists(0, len(datas), lambda k: {idx('k')} == {l}))" for l in LANES) + ")"),
        ("no-lanes-is-zero", f"implies({idx(0)} != 7 and not exists(0, len(datas), lambda k: 0 <= {idx('k')} <= 4), tag({r}) == 0 and alt({r}, 0) == 0)"),
        ("tuple-only-when-lengths-differ", f"implies({idx(0)} != 7 and tag({r}) == 1, exists(0, len(datas), lambda i: exists(0, len(datas), lambda j: "
                                           f"0 <= {idx('i')} <= 4 and 0 <= {idx('j')} <= 4 and datas[i].sustain != datas[j].sustain)))"),
        ("tuple-has-a-length", f"implies(tag({r}) == 1, " + " or ".join(f"alt({r}, 1)[{l}] is not None" for l in LANES) + ")"),
    ]
    reg.sustain_post = sustain_post
    reg.add(Contract(
        I + "complex_sustain_from_parsed_datas", params=dict(datas=SeqS(S["NoteData"])), result=CS,
        requires=group_pre, ensures=sustain_post("result"),
        loops={0: LoopSpec(invariants=[
            ("each-processed-lane-length", f"forall(0, _it, lambda k: implies(0 <= {idx('k')} <= 4, sustain_list[{idx('k')}] == datas[k].sustain))"),
        ] + [(f"slot{l}-only-if-written", f"implies(sustain_list[{l}] is not None, exists(0, _it, lambda k: {idx('k')} == {l}))") for l in LANES])},
        locals={"sustain_list": SeqS(OptS(INT))},
        props=["C03"]))

    # ------------------------------------------------------------------ star power
    spe, p = "star_power_events", "proximal_star_power_event_index"
    end = lambda j: f"{spe}[{j}].tick + {spe}[{j}].sustain"
    reg.add(Contract(
        I + "NoteEvent._compute_star_power_data",
        params={"tick": INT, spe: SeqS(SPE), p: INT}, result=TupS([OptS(S["StarPowerData"]), INT]),
        requires=[("cursor-nonneg", f"{p} >= 0")],
        raises={"ValueError": f"len({spe}) > 0 and {p} >= len({spe})"},
        ensures=[
            ("empty", f"implies(len({spe}) == 0, result[0] is None and result[1] == 0)"),
            ("cursor-range", f"implies(len({spe}) > 0, {p} <= result[1] < len({spe}))"),
            ("skipped-all-ended", f"forall({p}, result[1], lambda j: {end('j')} <= tick)"),
            ("stops-at-first-unended", f"implies(len({spe}) > 0, result[1] == len({spe}) - 1 or {end('result[1]')} > tick)"),
            ("membership-half-open", f"implies(len({spe}) > 0, iff(result[0] is not None, {spe}[result[1]].tick <= tick and tick < {end('result[1]')}))"),
            ("index-recorded", "implies(result[0] is not None, result[0].star_power_event_index == result[1])"),
        ],
        loops={0: LoopSpec(invariants=[
            ("bounds", f"{p} <= _it and _it <= len({spe})"),
            ("skipped-all-ended", f"forall({p}, _it, lambda j: {end('j')} <= tick)"),
        ])},
        props=["C05"]))

    # ------------------------------------------------------------------ hopo
    reg.add(Contract(
        I + "NoteEvent._compute_hopo_state",
        params=dict(resolution=INT, tick=INT, note=NOTE, is_tap=BOOL, is_forced=BOOL, previous=OptS(NE)),
        result=S["HOPOState"],
        requires=[("res-range", "1 <= resolution <= 2**50")],
        raises={"ValueError": "is_forced and previous is None"},
        ensures=[
            ("tap", "implies(is_tap, result.value == 2)"),
            ("first-is-strum", "implies(not is_tap and previous is None, result.value == 0)"),
            ("natural-hopo-rule-and-forcing",
             "implies(not is_tap and previous is not None, "
             "result.value == (1 if ((note.value[0] + note.value[1] + note.value[2] + note.value[3] + note.value[4] <= 1 "
             "and note != previous.note and tick - previous.tick <= (resolution + 1) // 3) != is_forced) else 0))"),
        ],
        props=["C04"]))

    # ------------------------------------------------------------------ one note event from one tick group
    import re as _re

    def subst(text, mapping):
        for a, b in mapping.items():
            text = _re.sub(r"(?<![\w.])" + _re.escape(a) + r"(?![\w])", b, text)
        return text

    be = "bpm_events"
    tick0 = "datas[0].tick"
    is_tap = f"exists(0, len(datas), lambda k: {idx('k')} == 6)"
    is_forced = f"exists(0, len(datas), lambda k: {idx('k')} == 5)"
    ev = "result[0]"
    note_post = [(n, subst(t, {"result": f"{ev}.note"})) for n, t in reg.by_name(I + "Note.from_parsed_datas").ensures]
    sus_post = sustain_post(f"{ev}.sustain")
    hopo_c = reg.by_name(I + "NoteEvent._compute_hopo_state")
    hopo_post = [(n, subst(t, {"result": f"{ev}.hopo_state", "is_tap": f"({is_tap})", "is_forced": f"({is_forced})",
                               "previous": "prev_event", "note": f"{ev}.note", "tick": tick0,
                               "resolution": f"{be}.resolution"})) for n, t in hopo_c.ensures]
    sp_c = reg.by_name(I + "NoteEvent._compute_star_power_data")
    sp_post = [("sp-" + n, subst(t, {"result[0]": f"{ev}.star_power_data", "result[1]": "result[2]",
                                     p: "star_power_event_index", "tick": tick0}))
               for n, t in sp_c.ensures]
    s_ = f"{ev}.sustain"
    tup = f"alt({s_}, 1)"
    end_post = [("end-time-uniform", f"implies(tag({s_}) == 0, {ev}.end_timestamp == TS({be}, {tick0} + alt({s_}, 0)))")] + [
        (f"end-time-longest-lane{l}",
         f"implies(tag({s_}) == 1 and {tup}[{l}] is not None and " +
         " and ".join(f"({tup}[{m}] is None or {tup}[{m}] <= {tup}[{l}])" for m in LANES if m != l) +
         f", {ev}.end_timestamp == TS({be}, {tick0} + {tup}[{l}]))") for l in LANES]
    ne_pre = group_pre + [
        ("same-tick", f"forall(0, len(datas), lambda k: datas[k].tick == {tick0})"),
        ("lengths-nonneg-bounded", f"forall(0, len(datas), lambda k: 0 <= datas[k].sustain <= {BIG})"),
        ("wf-sorted", f"sorted_ticks({be})"),
        ("nonempty-first0", f"len({be}.events) >= 1 and {be}.events[0].tick == 0"),
        ("res-range", f"1 <= {be}.resolution <= 2**50"),
        ("envelope", f"ENV({be}) and -{BIG} <= {tick0} <= {BIG}"),
        ("hints-nonneg", "proximal_bpm_event_index >= 0 and star_power_event_index >= 0"),
    ]
    zero_tempo = f"exists(0, len({be}.events), lambda j: {be}.events[j].bpm <= 0)"
    reg.add(Contract(
        I + "NoteEvent.from_parsed_data",
        params=dict(cls=_cls(I + "NoteEvent"), datas=SeqS(S["NoteData"]), prev_event=OptS(NE),
                    star_power_events=SeqS(SPE), bpm_events=S["BPMEvents"],
                    proximal_bpm_event_index=INT, star_power_event_index=INT),
        result=TupS([NE, INT, INT]),
        requires=ne_pre,
        raise_allowed={"ValueError": f"{tick0} < 0 or proximal_bpm_event_index > gov({be}, {tick0}) or {zero_tempo} "
                                     f"or (({is_forced}) and prev_event is None) "
                                     f"or (len(star_power_events) > 0 and star_power_event_index >= len(star_power_events))"},
        must_raise=[f"{tick0} < 0", f"{be}.events[gov({be}, {tick0})].bpm <= 0", f"({is_forced}) and prev_event is None"],
        ensures=[("tick", f"{ev}.tick == {tick0}"),
                 ("time-is-TS", f"{ev}.timestamp == TS({be}, {tick0})"),
                 ("index-is-gov", f"{ev}._proximal_bpm_event_index == gov({be}, {tick0}) and result[1] == gov({be}, {tick0}) and result[1] >= 0"),
                 ("cursor-nonneg", "result[2] >= 0"),
                 ] + note_post + sus_post + end_post + hopo_post + sp_post + [
                 # the name of this whole postcondition, used opaquely by the grouping loop
                 ("def:NEPOST", "opaque('NEPOST', datas, prev_event, bpm_events, result[0])")],
        props=["C01", "C02", "C03", "C04", "C05", "C11", "C12"],
        # which statement each clause carries (a clause without an entry - 'tick' - belongs to all seven):
        # lanes: C02 (and what C03/C04 say is relative to the active lanes); lengths: C03; end time: the
        # time of the end tick (C01/C11/C12) of C03's longest sustain; flags and HOPO rule: C04; star power: C05
        clause_props={"lane": ["C02", "C03", "C04"], "bits": ["C02", "C03", "C04"],
                      "time-is-TS": ["C01", "C03", "C11", "C12"], "index-is-gov": ["C01", "C11", "C12"],
                      "open": ["C03"], "each-lane-length": ["C03"], "inactive-slots-empty": ["C03"], "no-lanes-is-zero": ["C03"],
                      "tuple-": ["C03"], "end-time-": ["C01", "C03", "C11", "C12"],
                      "tap": ["C04"], "first-is-strum": ["C04"], "natural-hopo-rule-and-forcing": ["C04"],
                      "sp-": ["C05"], "cursor-nonneg": ["C05"]}))

    # ------------------------------------------------------------------ grouping note data by tick
    ne_c = reg.by_name(I + "NoteEvent.from_parsed_data")
    spe_end = lambda j: f"star_power_events[{j}].tick + star_power_events[{j}].sustain"

    def per_event(evs, k="k", reveal=False, only=None):
        """What the grouping loop records about event k, built from datas[g_lo[k]:g_hi[k]]:
        the hint-independent part of from_parsed_data's postcondition (as the opaque NEPOST, or
        unfolded when reveal=True) plus the star-power facts stated without reference to the
        cursor that was passed in (so that how the cursor is threaded is not pinned down)."""
        m = {"datas": f"slice(datas, g_lo[{k}], g_hi[{k}])",
             "prev_event": f"(None if {k} == 0 else {evs}[{k} - 1])",
             "result[0]": f"{evs}[{k}]", "result[1]": f"{evs}[{k}]._proximal_bpm_event_index",
             "result[2]": f"g_c[{k}]"}
        e, c, spe_ = f"{evs}[{k}]", f"g_c[{k}]", "star_power_events"
        sp = (f"{c} >= 0 and implies(len({spe_}) == 0, {e}.star_power_data is None and {c} == 0) "
              f"and implies(len({spe_}) > 0, {c} < len({spe_}) and ({c} == len({spe_}) - 1 or {spe_end(c)} > {e}.tick) "
              f"and iff({e}.star_power_data is not None, {spe_}[{c}].tick <= {e}.tick and {e}.tick < {spe_end(c)})) "
              f"and implies({e}.star_power_data is not None, {e}.star_power_data.star_power_event_index == {c})")
        if reveal:
            body = " and ".join("(" + subst(t, m) + ")" for n, t in ne_c.ensures
                                if not n.startswith("def:") and not n.startswith("sp-") and n != "cursor-nonneg"
                                and (only is None or any(n.startswith(p) for p in only)))
            if only is not None:
                return body
        else:
            body = (f"{e}.tick == datas[g_lo[{k}]].tick and {e}._proximal_bpm_event_index >= 0 "
                    f"and {e}._proximal_bpm_event_index == gov({be}, {e}.tick) and "
                    + subst(dict(ne_c.ensures)["def:NEPOST"], m))
        return f"{body} and {sp}"

    def structure(evs, upto):
        n = f"len({evs})"
        return [
            ("ghost-lengths", f"len(g_lo) == {n} and len(g_hi) == {n} and len(g_c) == {n} and len(g_run) == {upto}"),
            # g_run[j] is the run (= event) that datum j belongs to
            ("every-datum-in-its-run", f"forall(0, {upto}, lambda j: 0 <= g_run[j] and g_run[j] < {n} and g_lo[g_run[j]] <= j and j < g_hi[g_run[j]] and datas[j].tick == {evs}[g_run[j]].tick)"),
            ("runs-cover-prefix", f"implies({n} == 0, {upto} == 0) and implies({n} > 0, g_lo[0] == 0 and g_hi[{n} - 1] == {upto})"),
            ("runs-nonempty-adjacent", f"forall(0, {n}, lambda k: 0 <= g_lo[k] and g_lo[k] < g_hi[k] and g_hi[k] <= len(datas) and implies(k + 1 < {n}, g_hi[k] == g_lo[k + 1]))"),
            ("run-has-event-tick", f"forall(0, {n}, lambda k: forall(g_lo[k], g_hi[k], lambda j: datas[j].tick == {evs}[k].tick))"),
            ("ticks-strictly-increase", f"forall(0, {n}, lambda a: forall(a + 1, {n}, lambda b: {evs}[a].tick < {evs}[b].tick))"),
            ("each-event", f"forall(0, {n}, lambda k: {per_event(evs)})"),
            ("phrases-before-cursor-ended", f"forall(0, {n}, lambda k: forall(0, g_c[k], lambda j: {spe_end('j')} <= {evs}[k].tick))"),
        ]
    build_pre = [
        ("sorted-by-tick", "forall(0, len(datas), lambda i: forall(i + 1, len(datas), lambda j: datas[i].tick <= datas[j].tick))"),
        ("one-datum-per-index-per-tick", f"forall(0, len(datas), lambda i: forall(i + 1, len(datas), lambda j: implies(datas[i].tick == datas[j].tick, {idx('i')} != {idx('j')})))"),
        ("open-comes-first-in-its-tick", f"forall(1, len(datas), lambda k: implies(datas[k].tick == datas[k - 1].tick, {idx('k')} != 7))"),
        ("lengths-nonneg-bounded", f"forall(0, len(datas), lambda k: 0 <= datas[k].sustain <= {BIG} and -{BIG} <= datas[k].tick <= {BIG})"),
        ("wf-sorted", f"sorted_ticks({be})"),
        ("nonempty-first0", f"len({be}.events) >= 1 and {be}.events[0].tick == 0"),
        ("res-range", f"1 <= {be}.resolution <= 2**50"),
        ("envelope", f"ENV({be})"),
    ]
    first_forced = f"exists(0, len(datas), lambda k: datas[k].tick == datas[0].tick and {idx('k')} == 5)"
    reg.add(Contract(
        I + "InstrumentTrack._build_note_events_from_data",
        params=dict(cls=_cls(I + "InstrumentTrack"), datas=SeqS(S["NoteData"]), star_power_events=SeqS(SPE), bpm_events=S["BPMEvents"]),
        result=SeqS(NE),
        ghost_results=dict(g_lo=SeqS(INT), g_hi=SeqS(INT), g_c=SeqS(INT), g_run=SeqS(INT)),
        requires=build_pre,
        raise_allowed={"ValueError": f"exists(0, len(datas), lambda k: datas[k].tick < 0) or {zero_tempo} or ({first_forced})"},
        must_raise=["exists(0, len(datas), lambda k: datas[k].tick < 0)", first_forced],
        ensures=structure("result", "len(datas)"),
        ghost_init="g_lo = empty_ints()\ng_hi = empty_ints()\ng_c = empty_ints()\ng_run = empty_ints()",
        ghosts=[Ghost("events.append(event)", "g_lo = append(g_lo, left)\ng_hi = append(g_hi, right)\ng_c = append(g_c, star_power_event_index)\ng_run = extend(g_run, right, len(events) - 1)")],
        loops={
            0: LoopSpec(invariants=[
                ("index-range", "0 <= i and i <= num_datas and num_datas == len(datas)"),
            ] + structure("events", "i") + [
                ("next-run-is-later", "implies(len(events) > 0 and i < num_datas, events[len(events) - 1].tick < datas[i].tick)"),
                ("cursors-threaded", "proximal_bpm_event_index == (0 if len(events) == 0 else events[len(events) - 1]._proximal_bpm_event_index) and proximal_bpm_event_index >= 0 "
                                     "and star_power_event_index == (0 if len(events) == 0 else g_c[len(events) - 1]) and star_power_event_index >= 0"),
                ("no-negative-tick-so-far", "forall(0, i, lambda k: datas[k].tick >= 0)"),
                ("first-not-forced", f"implies(len(events) > 0, not exists(0, g_hi[0], lambda k: {idx('k')} == 5))"),
            ], decreases="num_datas - i"),
            1: LoopSpec(invariants=[
                ("run-range", "left <= i and i < num_datas"),
                ("run-same-tick", "forall(left, i + 1, lambda j: datas[j].tick == datas[left].tick)"),
            ], decreases="num_datas - i"),
        },
        locals={"events": SeqS(NE)},
        props=["C02", "C03", "C04", "C05", "C11", "C01", "C12"]))

    reg.note_per_event = per_event
    reg.note_structure = structure
    reg.note_build_pre = build_pre

    # ------------------------------------------------------------------ last note end
    reg.add(Contract(
        I + "InstrumentTrack.last_note_end_timestamp", params=dict(self=S["InstrumentTrack"]), result=OptS(TD),
        ensures=[("none-iff-empty", "iff(result is None, len(self.note_events) == 0)"),
                 ("is-maximum", "implies(result is not None, forall(0, len(self.note_events), lambda k: self.note_events[k].end_timestamp <= result))"),
                 ("is-attained", "implies(result is not None, exists(0, len(self.note_events), lambda k: self.note_events[k].end_timestamp == result))")],
        props=["C03", "C16"]))

    # ------------------------------------------------------------------ line decoders
    K = I + "NoteEvent.ParsedData"
    reg.add(Contract(
        f"{K}.from_chart_line", params=dict(cls=_cls(K), line=STR), result=S["NoteData"],
        raises={"RegexNotMatchError": f"not rxm('{K}', line)"},
        ensures=[("tick", f"result.tick == pyint(rxg('{K}', 1, line))"),
                 ("index", f"result.note_track_index.value == pyint(rxg('{K}', 2, line))"),
                 ("sustain", f"result.sustain == pyint(rxg('{K}', 3, line))")],
        props=["C07", "C14", "C18"]))
    pat = _cls(K).get()._regex_prog.pattern
    reg.rx_facts.setdefault(pat, []).extend([(1, "digits"), (2, "range", 0, 7), (3, "digits")])
    K = I + "StarPowerEvent.ParsedData"
    reg.add(Contract(
        I + "SpecialEvent.ParsedData.from_chart_line", inst="StarPowerEvent",
        params=dict(cls=_cls(K), line=STR), result=S["StarPowerDataLine"],
        raises={"RegexNotMatchError": f"not rxm('{K}', line)"},
        ensures=[("tick", f"result.tick == pyint(rxg('{K}', 1, line))"),
                 ("sustain", f"result.sustain == pyint(rxg('{K}', 2, line))")],
        props=["C07", "C14", "C18"]))
    pat = _cls(K).get()._regex_prog.pattern
    reg.rx_facts.setdefault(pat, []).extend([(1, "digits"), (2, "digits")])
    K = I + "TrackEvent.ParsedData"
    reg.add(Contract(
        f"{K}.from_chart_line", params=dict(cls=_cls(K), line=STR), result=S["TrackData"],
        raises={"RegexNotMatchError": f"not rxm('{K}', line)"},
        ensures=[("tick", f"result.tick == pyint(rxg('{K}', 1, line))"),
                 ("value-verbatim", f"result.value == rxg('{K}', 2, line)")],
        props=["C07", "C14", "C18"]))
    pat = _cls(K).get()._regex_prog.pattern
    reg.rx_facts.setdefault(pat, []).extend([(1, "digits")])
