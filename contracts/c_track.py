"""Contracts for chartparse/track.py: build_events_from_data (one instance per event type; the
nested builders are verified inline, their loops carry the sidecar invariants) and the line
dispatcher parse_data_from_chart_lines (one instance per kind tuple)."""
from pyvc.contract import Contract, LoopSpec, Conc
from pyvc.values import INT, SeqS
from .c_sync import _cls, BIG
from .c_events import KINDS

Q = "build_events_from_data.<locals>."


def register(reg, S):
    key = "chartparse.track:build_events_from_data"
    # ------------------------------------------------------------------ tempo map
    ev = "events[k]"
    mirror = (f"{ev}.tick == datas[k].tick and {ev}.bpm == RN(pyint(datas[k].raw_bpm) / 1000) "
              f"and {ev}._proximal_bpm_event_index == k and -{BIG} <= {ev}.tick <= {BIG} "
              f"and {ev}.bpm <= 10**9 and ({ev}.bpm <= 0 or 1024 * {ev}.bpm >= 1) "
              f"and iff({ev}.bpm <= 0, pyint(datas[k].raw_bpm) == 0)")
    res = "resolution_or_bpm_events_or_None"
    bad_pair = "datas[k + 1].tick <= datas[k].tick or pyint(datas[k].raw_bpm) == 0"
    reg.add(Contract(
        key, inst="BPMEvent",
        params={"event_type": _cls("chartparse.sync:BPMEvent"), "datas": SeqS(S["BPMData"]), res: INT},
        result=S["BPMEvents"],
        requires=[("tokens-bounded", f"forall(0, len(datas), lambda k: decok(datas[k].raw_bpm) and 0 <= pyint(datas[k].raw_bpm) <= 10**11 and -{BIG} <= datas[k].tick <= {BIG})"),
                  ("resolution-bounded", f"{res} <= {BIG}")],
        raises={"ValueError": f"{res} <= 0 or len(datas) == 0 or datas[0].tick != 0 or exists(0, len(datas) - 1, lambda k: {bad_pair})"},
        ensures=[("well-formed", "WF(result)"), ("envelope", "ENV(result)"),
                 ("same-length", "len(result.events) == len(datas)"),
                 ("resolution", f"result.resolution == {res}"),
                 ("mirror", "forall(0, len(datas), lambda k: result.events[k].tick == datas[k].tick and result.events[k].bpm == RN(pyint(datas[k].raw_bpm) / 1000))")],
        loops={(Q + "data_to_bpm_events", 0): LoopSpec(invariants=[
            ("length", "len(events) == _it"),
            ("mirror", f"forall(0, _it, lambda k: {mirror})"),
            ("first-time-zero", "implies(_it >= 1, events[0].timestamp == us(0))"),
            ("sorted", "forall(0, _it, lambda i: forall(i + 1, _it, lambda j: events[i].tick < events[j].tick))"),
            ("chain", "forall(0, _it - 1, lambda k: events[k].bpm > 0 and events[k + 1].timestamp == events[k].timestamp + TDF(SEC(events[k + 1].tick - events[k].tick, events[k].bpm, resolution)))"),
            ("resolution-checked", "implies(_it >= 2, resolution > 0)"),
            ("no-bad-pair-so-far", f"forall(0, _it - 1, lambda k: not ({bad_pair}))"),
        ])},
        locals={"events": SeqS(S["BPMEvent"])},
        props=["C01", "C12", "C15"]))

    # ------------------------------------------------------------------ anchors
    reg.add(Contract(
        key, inst="AnchorEvent",
        params={"event_type": _cls("chartparse.sync:AnchorEvent"), "datas": SeqS(S["AnchorData"])},
        result=SeqS(S["AnchorEvent"]),
        ensures=[("same-length", "len(result) == len(datas)"),
                 ("mirror", "forall(0, len(datas), lambda k: result[k].tick == datas[k].tick and result[k].timestamp == us(datas[k].microseconds))")],
        loops={(Q + "data_to_anchor_events", 0): LoopSpec(invariants=[
            ("length", "len(events) == _it"),
            ("mirror", "forall(0, _it, lambda k: events[k].tick == datas[k].tick and events[k].timestamp == us(datas[k].microseconds))"),
        ])},
        locals={"events": SeqS(S["AnchorEvent"])},
        props=["C08"]))

    # ------------------------------------------------------------------ tempo-map consumers
    kinds = dict(KINDS)
    kinds["TimeSignatureEvent"] = ("chartparse.sync:TimeSignatureEvent.from_parsed_data", "chartparse.sync:TimeSignatureEvent",
                                   "TSData", "TimeSignatureEvent",
                                   [("upper", "result.upper_numeral == data.upper"),
                                    ("lower", "result.lower_numeral == (4 if data.lower is None else pow2(data.lower))")])
    be = res
    for label, (_, clsp, dname, ename, payload) in kinds.items():
        def sub(text, who):
            return (text.replace("result.", f"{who}.").replace("data.", "datas[k].")
                    .replace("bpm_events", be))
        # must raise: a negative tick or a governing tempo of zero (C15); may raise only if one
        # of those holds or the data are out of tick order somewhere (C11: any order either
        # raises ValueError or yields correct times) -- which hint is threaded is not pinned down
        must = f"datas[k].tick < 0 or {be}.events[gov({be}, datas[k].tick)].bpm <= 0"
        bad = f"{must} or (k > 0 and datas[k].tick < datas[k - 1].tick)"
        per_event = (f"{{e}}.tick == datas[k].tick and {{e}}.timestamp == TS({be}, datas[k].tick) "
                     f"and {{e}}._proximal_bpm_event_index == gov({be}, datas[k].tick) "
                     f"and {{e}}._proximal_bpm_event_index >= 0")
        pay = " and ".join(sub(t, "{e}") for _, t in payload)
        full = per_event + (" and " + pay if pay else "")
        extra_pre = []
        if label == "TimeSignatureEvent":
            extra_pre = [("exponent-nonneg", "forall(0, len(datas), lambda k: datas[k].lower is None or datas[k].lower >= 0)")]
        reg.add(Contract(
            key, inst=label,
            params={"event_type": _cls(clsp), "datas": SeqS(S[dname]), res: S["BPMEvents"]},
            result=SeqS(S[ename]),
            requires=[("wf-sorted", f"sorted_ticks({be})"),
                      ("nonempty-first0", f"len({be}.events) >= 1 and {be}.events[0].tick == 0 and {be}.resolution >= 1"),
                      ("envelope", f"ENV({be}) and forall(0, len(datas), lambda k: -{BIG} <= datas[k].tick <= {BIG})")] + extra_pre,
            raise_allowed={"ValueError": f"exists(0, len(datas), lambda k: {bad})"},
            must_raise=[f"exists(0, len(datas), lambda k: {must})"],
            ensures=[("same-length", "len(result) == len(datas)"),
                     ("each-event", f"forall(0, len(datas), lambda k: {full.format(e='result[k]')})")],
            loops={(Q + "data_to_events", 0): LoopSpec(invariants=[
                ("length", "len(events) == _it"),
                ("each-event", f"forall(0, _it, lambda k: {full.format(e='events[k]')})".replace(be, "bpm_events")),
                ("no-must-raise-so-far", f"forall(0, _it, lambda k: not ({must}))".replace(be, "bpm_events")),
            ])},
            locals={"events": SeqS(S[ename])},
            props=["C01", "C11", "C12", "C15"]))
