"""Contracts for chartparse/track.py: build_events_from_data (one instance per event type; the
nested builders are verified inline, their loops carry the sidecar invariants) and the line
dispatcher parse_data_from_chart_lines (one instance per kind tuple)."""
import ast

from pyvc.contract import Contract, LoopSpec, Conc, Ghost, MapOf
from pyvc.values import INT, STR, SeqS
from pyvc import values as V
from pyvc.objects import PyMap
from pyvc.state import BindingLost
from .c_sync import _cls, BIG
from .c_events import KINDS

Q = "build_events_from_data.<locals>."


def register(reg, S):
    register_builders(reg, S)


def register_builders(reg, S):
    key = "chartparse.track:build_events_from_data"
    # ------------------------------------------------------------------ tempo map
    ev = "events[k]"
    mirror = (f"{ev}.tick == datas[k].tick and {ev}.bpm == RN(pyint(datas[k].raw_bpm) / 1000) "
              f"and {ev}._proximal_bpm_event_index == k and -{BIG} <= {ev}.tick <= {BIG} "
              f"and {ev}.bpm <= 10**9 and ({ev}.bpm <= 0 or 1024 * {ev}.bpm >= 1) "
              f"and iff({ev}.bpm <= 0, pyint(datas[k].raw_bpm) == 0)")
    res = "resolution_or_bpm_events_or_None"
    bad_pair = "datas[k + 1].tick <= datas[k].tick or pyint(datas[k].raw_bpm) == 0"
    reg.add(Contract(
        key, inst="BPMEvent",
        params={"event_type": _cls("chartparse.sync:BPMEvent"), "datas": SeqS(S["BPMData"]), res: INT},
        result=S["BPMEvents"],
        requires=[("tokens-bounded", f"forall(0, len(datas), lambda k: decok(datas[k].raw_bpm) and 0 <= pyint(datas[k].raw_bpm) <= 10**11 and -{BIG} <= datas[k].tick <= {BIG})"),
                  ("resolution-bounded", f"{res} <= {BIG}")],
        raises={"ValueError": f"{res} <= 0 or len(datas) == 0 or datas[0].tick != 0 or exists(0, len(datas) - 1, lambda k: {bad_pair})"},
        ensures=[("well-formed", "WF(result)"), ("envelope", "ENV(result)"),
                 ("same-length", "len(result.events) == len(datas)"),
                 ("resolution", f"result.resolution == {res}"),
                 ("mirror", "forall(0, len(datas), lambda k: result.events[k].tick == datas[k].tick and result.events[k].bpm == RN(pyint(datas[k].raw_bpm) / 1000))")],
        loops={(Q + "data_to_bpm_events", 0): LoopSpec(invariants=[
            ("length", "len(events) == _it"),
            ("mirror", f"forall(0, _it, lambda k: {mirror})"),
            ("first-time-zero", "implies(_it >= 1, events[0].timestamp == us(0))"),
            ("sorted", "forall(0, _it, lambda i: forall(i + 1, _it, lambda j: events[i].tick < events[j].tick))"),
            ("chain", "forall(0, _it - 1, lambda k: events[k].bpm > 0 and events[k + 1].timestamp == events[k].timestamp + TDF(SEC(events[k + 1].tick - events[k].tick, events[k].bpm, resolution)))"),
            ("resolution-checked", "implies(_it >= 2, resolution > 0)"),
            ("no-bad-pair-so-far", f"forall(0, _it - 1, lambda k: not ({bad_pair}))"),
        ])},
        locals={"events": SeqS(S["BPMEvent"])},
        # C11: the well-formed tempo map every query and every constructor assumes is ESTABLISHED here
        # (seeded C11e: a builder that accepts out-of-order tempo lines breaks C11's "raises ValueError or
        # returns only timestamps equal to the un-hinted query" although the query itself is untouched)
        props=["C01", "C08", "C12", "C15", "C11", "C03", "C16"]))

    # ------------------------------------------------------------------ anchors
    reg.add(Contract(
        key, inst="AnchorEvent",
        params={"event_type": _cls("chartparse.sync:AnchorEvent"), "datas": SeqS(S["AnchorData"])},
        result=SeqS(S["AnchorEvent"]),
        ensures=[("same-length", "len(result) == len(datas)"),
                 ("mirror", "forall(0, len(datas), lambda k: result[k].tick == datas[k].tick and result[k].timestamp == us(datas[k].microseconds))")],
        loops={(Q + "data_to_anchor_events", 0): LoopSpec(invariants=[
            ("length", "len(events) == _it"),
            ("mirror", "forall(0, _it, lambda k: events[k].tick == datas[k].tick and events[k].timestamp == us(datas[k].microseconds))"),
        ])},
        locals={"events": SeqS(S["AnchorEvent"])},
        props=["C08"]))

    # ------------------------------------------------------------------ tempo-map consumers
    kinds = dict(KINDS)
    kinds["TimeSignatureEvent"] = ("chartparse.sync:TimeSignatureEvent.from_parsed_data", "chartparse.sync:TimeSignatureEvent",
                                   "TSData", "TimeSignatureEvent",
                                   [("upper", "result.upper_numeral == data.upper"),
                                    ("lower", "result.lower_numeral == (4 if data.lower is None else pow2(data.lower))")])
    be = res
    for label, (_, clsp, dname, ename, payload) in kinds.items():
        def sub(text, who):
            return (text.replace("result.", f"{who}.").replace("data.", "datas[k].")
                    .replace("bpm_events", be))
        # must raise: a negative tick or a governing tempo of zero (C15); may raise only if one
        # of those holds or the data are out of tick order somewhere (C11: any order either
        # raises ValueError or yields correct times) -- which hint is threaded is not pinned down
        must = f"datas[k].tick < 0 or {be}.events[gov({be}, datas[k].tick)].bpm <= 0"
        bad = f"{must} or (k > 0 and datas[k].tick < datas[k - 1].tick)"
        per_event = (f"{{e}}.tick == datas[k].tick and {{e}}.timestamp == TS({be}, datas[k].tick) "
                     f"and {{e}}._proximal_bpm_event_index == gov({be}, datas[k].tick) "
                     f"and {{e}}._proximal_bpm_event_index >= 0")
        pay = " and ".join(sub(t, "{e}") for _, t in payload)
        full = per_event + (" and " + pay if pay else "")
        extra_pre = []
        if label == "TimeSignatureEvent":
            extra_pre = [("exponent-nonneg", "forall(0, len(datas), lambda k: datas[k].lower is None or datas[k].lower >= 0)")]
        reg.add(Contract(
            key, inst=label,
            params={"event_type": _cls(clsp), "datas": SeqS(S[dname]), res: S["BPMEvents"]},
            result=SeqS(S[ename]),
            requires=[("wf-sorted", f"sorted_ticks({be})"),
                      ("nonempty-first0", f"len({be}.events) >= 1 and {be}.events[0].tick == 0 and {be}.resolution >= 1"),
                      ("envelope", f"ENV({be}) and forall(0, len(datas), lambda k: -{BIG} <= datas[k].tick <= {BIG})")] + extra_pre,
            raise_allowed={"ValueError": f"exists(0, len(datas), lambda k: {bad})"},
            must_raise=[f"exists(0, len(datas), lambda k: {must})"],
            ensures=[("same-length", "len(result) == len(datas)"),
                     ("each-event", f"forall(0, len(datas), lambda k: {full.format(e='result[k]')})")],
            loops={(Q + "data_to_events", 0): LoopSpec(invariants=[
                ("length", "len(events) == _it"),
                ("each-event", f"forall(0, _it, lambda k: {full.format(e='events[k]')})".replace(be, "bpm_events")),
                ("no-must-raise-so-far", f"forall(0, _it, lambda k: not ({must}))".replace(be, "bpm_events")),
            ])},
            locals={"events": SeqS(S[ename])},
            props=["C01", "C11", "C12", "C15"] + {"TimeSignatureEvent": ["C08"], "StarPowerEvent": ["C07", "C05"], "TrackEvent": ["C07"],
                                                  "TextEvent": ["C09"], "SectionEvent": ["C09"], "LyricEvent": ["C09"]}.get(label, [])))


# ---------------------------------------------------------------------- ParsedDataMap
def _model_parsed_data_map(eng, cls, args, kwargs, st):
    """ParsedDataMap is modelled as collections.defaultdict(list) keyed by the kind classes, after
    a syntactic check of its two methods in the *current* source (otherwise: binding lost)."""
    node = eng.idx.classes.get("chartparse.track:ParsedDataMap")
    ok = False
    if node is not None:
        meths = {n.name: n for n in node.body if isinstance(n, ast.FunctionDef)}
        if set(meths) == {"__init__", "__getitem__"}:
            init = [s for s in meths["__init__"].body if not (isinstance(s, ast.Expr) and isinstance(s.value, ast.Constant))]
            gi = [s for s in meths["__getitem__"].body if not (isinstance(s, ast.Expr) and isinstance(s.value, ast.Constant))]
            ok = (len(init) == 1 and isinstance(init[0], (ast.AnnAssign, ast.Assign))
                  and ast.unparse(init[0].value) == "collections.defaultdict(list)"
                  and ast.unparse(init[0].target if isinstance(init[0], ast.AnnAssign) else init[0].targets[0]) == "self._dict"
                  and len(gi) == 1 and isinstance(gi[0], ast.Return)
                  and ast.unparse(gi[0].value).endswith("self._dict.__getitem__(k))")
                  and not any(isinstance(n, ast.Assign) and not isinstance(n, ast.FunctionDef) for n in node.body))
    if not ok or args or kwargs:
        raise BindingLost("ParsedDataMap no longer matches its model (defaultdict(list) behind __getitem__)")
    eng.ctx.assumptions.add("ParsedDataMap modelled as a per-instance collections.defaultdict(list) (its two methods are matched syntactically every run)")
    return V.vconc(PyMap(default=lambda k: V.vseq_empty(eng.shape_of_class(k)), kind="ParsedDataMap"))


SECTIONS = {
    # label: (kind class paths in the order the code passes them, data shape names)
    "sync": (["chartparse.sync:BPMEvent.ParsedData", "chartparse.sync:TimeSignatureEvent.ParsedData",
              "chartparse.sync:AnchorEvent.ParsedData"], ["BPMData", "TSData", "AnchorData"]),
    "instrument": (["chartparse.instrument:NoteEvent.ParsedData", "chartparse.instrument:StarPowerEvent.ParsedData",
                    "chartparse.instrument:TrackEvent.ParsedData"], ["NoteData", "StarPowerDataLine", "TrackData"]),
    "globalevents": (["chartparse.globalevents:LyricEvent.ParsedData", "chartparse.globalevents:SectionEvent.ParsedData",
                      "chartparse.globalevents:TextEvent.ParsedData"], ["LyricData", "SectionData", "TextData"]),
}


def decoder_contract(reg, path):
    """The from_chart_line contract serving kind class `path`."""
    for c in reg.all():
        if c.key.endswith(".from_chart_line") and "cls" in c.params and c.params["cls"].label == path.split(":")[1]:
            return c
    raise KeyError(path)


def first_is(paths, j, line):
    """`line` is claimed by kind j: it matches kind j and no earlier kind."""
    parts = [f"rxm('{paths[j]}', {line})"] + [f"not rxm('{paths[i]}', {line})" for i in range(j)]
    return " and ".join(parts)


def dispatcher_clauses(reg, paths, lists, upto, src=lambda j: f"g_src{j}"):
    """Filter-map characterisation of the per-kind lists over lines[0:upto]."""
    import re as _re
    out = []
    for j, p in enumerate(paths):
        L, G = lists[j], src(j)
        dec = decoder_contract(reg, p)
        mirror = " and ".join(
            "(" + _re.sub(r"(?<![\w.])line(?![\w])", f"lines[{G}[k]]", _re.sub(r"(?<![\w.])result(?![\w])", f"{L}[k]", t)) + ")"
            for _, t in dec.ensures)
        out += [
            (f"kind{j}-length", f"len({L}) == len({G})"),
            (f"kind{j}-sources-in-range", f"forall(0, len({G}), lambda k: 0 <= {G}[k] and {G}[k] < {upto})"),
            (f"kind{j}-sources-increasing", f"forall(0, len({G}), lambda a: forall(a + 1, len({G}), lambda b: {G}[a] < {G}[b]))"),
            (f"kind{j}-sources-claimed-by-this-kind", f"forall(0, len({G}), lambda k: {first_is(paths, j, f'lines[{G}[k]]')})"),
            (f"kind{j}-data-decoded-from-source-line", f"forall(0, len({G}), lambda k: {mirror})"),
            # g_at[i] is the position of line i's datum in its kind's list (-1: unparsable)
            (f"kind{j}-complete", f"forall(0, {upto}, lambda i: implies({first_is(paths, j, 'lines[i]')}, 0 <= g_at[i] and g_at[i] < len({G}) and {G}[g_at[i]] == i))"),
        ]
    out.append(("positions-length", f"len(g_at) == {upto}"))
    out.append(("conservation", "_warnings + " + " + ".join(f"len({l})" for l in lists) + f" == {upto}"))
    return out


def register_dispatcher(reg, S):
    from .c_sync import _cls
    reg.modeled_classes["chartparse.track:ParsedDataMap"] = _model_parsed_data_map
    for label, (paths, shapes) in SECTIONS.items():
        getters = [_cls(p) for p in paths]
        keys = (lambda gs: (lambda: [g.get() for g in gs]))(getters)
        types = Conc((lambda gs: (lambda: tuple(g.get() for g in gs)))(getters), label + "-kinds")
        # the live tuple object must be identical across calls for contract lookup: cache it
        cache = {}

        def get_types(gs=getters, cache=cache):
            if "t" not in cache:
                cache["t"] = tuple(g.get() for g in gs)
            return cache["t"]
        types = Conc(get_types, label + "-kinds")
        res_lists = [f"result[types[{j}]]" for j in range(3)]
        inv_lists = [f"m[types[{j}]]" for j in range(3)]
        ghost = ("g_at = append(g_at, len(g_src0) if t is types[0] else (len(g_src1) if t is types[1] else len(g_src2)))\n" +
                 "\n".join(f"g_src{j} = append(g_src{j}, _it) if t is types[{j}] else g_src{j}" for j in range(3)))
        reg.add(Contract(
            "chartparse.track:parse_data_from_chart_lines", inst=label,
            params=dict(types=types, lines=SeqS(STR)),
            result=MapOf(keys, [SeqS(S[n]) for n in shapes]),
            ghost_results=dict({f"g_src{j}": SeqS(INT) for j in range(3)}, g_at=SeqS(INT)),
            ensures=dispatcher_clauses(reg, paths, res_lists, "len(lines)"),
            logs=None,
            ghost_init="\n".join(f"g_src{j} = empty_ints()" for j in range(3)) + "\ng_at = empty_ints()",
            ghosts=[Ghost("m[t].append(data)", ghost),
                    Ghost("logger.warning(_unparsable_line_msg_tmpl.format(line, [t.__qualname__ for t in types]))", "g_at = append(g_at, -1)")],
            loops={0: LoopSpec(invariants=dispatcher_clauses(reg, paths, inv_lists, "_it"))},
            map_keys={"m": keys},
            props=["C07", "C08", "C09", "C14", "C18"] + {"sync": ["C01", "C15"], "instrument": ["C02", "C03", "C04", "C05"], "globalevents": []}[label],
            clause_props={"sync": {"kind0": ["C01", "C15", "C08", "C14", "C18"], "kind1": ["C15", "C08", "C14", "C18"], "kind2": ["C08", "C14", "C18"], "conservation": ["C14", "C18"], "positions-length": ["C14", "C18"]},
                          "instrument": {"kind0": ["C02", "C03", "C04", "C05", "C07", "C14", "C18"], "kind1": ["C05", "C07", "C14", "C18"], "kind2": ["C07", "C14", "C18"], "conservation": ["C14", "C18"], "positions-length": ["C14", "C18"]},
                          "globalevents": {}}[label]))
