"""Rendering (second half of C18): str() and repr() of a parsed chart and of every event in it
never raise.  One safety unit per package-defined __str__/__repr__ and per concrete class it is
inherited by (self has that class's shape).  Event.__str__ is reached through super().__str__()
and is inlined at each use (no contract: the subclass units execute its body).

Rendering of values by the library (str/format of int, float, str, timedelta, enum members, the
dataclass-generated __repr__, dict/list repr) is assumed total (T3); what is proved is that the
package's own code around it (format specs, dict lookups, indexing v[0], hasattr guards, the
truncated-sequence arithmetic) cannot raise for ANY field values of the right types."""
from pyvc.contract import Contract, LoopSpec
from pyvc.values import STR, SeqS


EVENT_CLASSES = [
    ("chartparse.sync:TimeSignatureEvent", "TimeSignatureEvent", "chartparse.sync:TimeSignatureEvent.__str__"),
    ("chartparse.sync:BPMEvent", "BPMEvent", "chartparse.sync:BPMEvent.__str__"),
    ("chartparse.sync:AnchorEvent", "AnchorEvent", "chartparse.event:Event.__str__"),
    ("chartparse.instrument:NoteEvent", "NoteEvent", "chartparse.instrument:NoteEvent.__str__"),
    ("chartparse.instrument:StarPowerEvent", "StarPowerEvent", "chartparse.instrument:SpecialEvent.__str__"),
    ("chartparse.instrument:TrackEvent", "TrackEvent", "chartparse.instrument:TrackEvent.__str__"),
    ("chartparse.globalevents:TextEvent", "TextEvent", "chartparse.globalevents:GlobalEvent.__str__"),
    ("chartparse.globalevents:SectionEvent", "SectionEvent", "chartparse.globalevents:GlobalEvent.__str__"),
    ("chartparse.globalevents:LyricEvent", "LyricEvent", "chartparse.globalevents:GlobalEvent.__str__"),
]


def register(reg, S):
    reg.inline_ok.add("chartparse.event:Event.__str__")
    for ckey, sname, fkey in EVENT_CLASSES:
        reg.add(Contract(fkey, inst=sname, mode="safety", params=dict(self=S[sname]), result=STR,
                         call_site=(fkey != "chartparse.event:Event.__str__"), props=["C18"]))
    reg.add(Contract("chartparse.instrument:InstrumentTrack.__str__", inst="render", mode="safety",
                     params=dict(self=S["InstrumentTrack"]), result=STR, props=["C18"]))
    reg.add(Contract("chartparse.chart:Chart.__str__", inst="render", mode="safety",
                     params=dict(self=S["Chart"]), result=STR,
                     loops={0: LoopSpec(invariants=[]), 1: LoopSpec(invariants=[])},
                     locals={"items": SeqS(STR)}, props=["C18"]))
    reg.add(Contract("chartparse.util:DictReprTruncatedSequencesMixin.__repr__", inst="Chart", mode="safety",
                     params=dict(self=S["Chart"]), result=STR, locals={"items": SeqS(STR)}, props=["C18"]))
    for sname in ("SyncTrack", "GlobalEventsTrack", "InstrumentTrack"):
        pass
