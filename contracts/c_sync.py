"""Contracts for chartparse/sync.py."""
from pyvc.contract import Contract, LoopSpec, Conc, Ghost
from pyvc.values import INT, REAL, TD, STR, NONE, OptS, TupS, SeqS
from pyvc.source import live_module

BIG = 10**15


def _cls(path):
    def get():
        mod, q = path.split(":")
        o = live_module(mod)
        for part in q.split("."):
            o = getattr(o, part)
        return o
    get.__name__ = path.split(":")[1]
    return Conc(get, path.split(":")[1])


def register(reg, S):
    BE, BES = S["BPMEvent"], S["BPMEvents"]
    n = "len(self.events)"

    reg.add(Contract("chartparse.sync:BPMEvents.__len__", params=dict(self=BES), result=INT,
                     ensures=[("len", f"result == {n}")], props=["C01", "C11", "C12"]))
    reg.add(Contract(
        "chartparse.sync:BPMEvents.__getitem__", inst="int", params=dict(self=BES, index=INT), result=BE,
        raises={"IndexError": f"index >= {n} or index < -{n}"},
        ensures=[("item", f"result == self.events[index if index >= 0 else index + {n}]")],
        props=["C01", "C11", "C12"]))
    reg.add(Contract(
        "chartparse.sync:BPMEvents.__post_init__", params=dict(self=BES), result=NONE,
        raises={"ValueError": f"self.resolution <= 0 or {n} == 0 or self.events[0].tick != 0"},
        props=["C15", "C11", "C03", "C16"]))
    reg.add(Contract(
        "chartparse.sync:BPMEvents._index_of_proximal_event",
        params=dict(self=BES, tick=INT, start_iteration_index=INT), result=INT,
        requires=[("sorted", "sorted_ticks(self)"), ("hint-nonneg", "start_iteration_index >= 0")],
        raises={"ValueError": f"start_iteration_index > {n} - 1 or self.events[start_iteration_index].tick > tick"},
        ensures=[
            ("in-range", f"0 <= result < {n}"),
            ("at-or-before", "self.events[result].tick <= tick"),
            ("last-such", f"forall(result + 1, {n}, lambda j: self.events[j].tick > tick)"),
            ("is-gov", "result == gov(self, tick)"),
        ],
        loops={0: LoopSpec(invariants=[
            ("bounds", f"start_iteration_index <= _it and _it <= {n} - 1"),
            ("below", "self.events[_it].tick <= tick"),
        ])},
        props=["C01", "C03", "C11", "C12", "C15", "C16"],
        # returning instead of raising (a hint beyond the governing event, a negative tick, a zero tempo)
        # is what C11 and C15 forbid; C16 relies on it for its own ValueError clauses
        clause_props={"must-raise": ["C11", "C15", "C16"]}))
    ts_pre = [("wf-sorted", "sorted_ticks(self)"), ("hint-nonneg", "start_iteration_index >= 0"),
              ("envelope", f"ENV(self) and -{2*BIG} <= tick <= {2*BIG}")]
    reg.add(Contract(
        "chartparse.sync:BPMEvents.timestamp_at_tick",
        params=dict(self=BES, tick=INT, start_iteration_index=INT), result=TupS([TD, INT]),
        requires=ts_pre + [("nonempty-first0", f"{n} >= 1 and self.events[0].tick == 0 and self.resolution >= 1")],
        raises={"ValueError": "tick < 0 or start_iteration_index > gov(self, tick) or self.events[gov(self, tick)].bpm <= 0"},
        ensures=[
            ("index-is-gov", "result[1] == gov(self, tick)"),
            ("time-is-TS", "result[0] == TS(self, tick)"),
            ("index-range", f"0 <= result[1] < {n}"),
        ],
        props=["C01", "C03", "C11", "C12", "C15", "C16"],
        # returning instead of raising (a hint beyond the governing event, a negative tick, a zero tempo)
        # is what C11 and C15 forbid; C16 relies on it for its own ValueError clauses
        clause_props={"must-raise": ["C11", "C15", "C16"]}))
    reg.add(Contract(
        "chartparse.sync:BPMEvents.timestamp_at_tick_no_optimize_return",
        params=dict(self=BES, tick=INT), result=TD,
        requires=[("wf-sorted", "sorted_ticks(self)"), ("envelope", f"ENV(self) and -{2*BIG} <= tick <= {2*BIG}"),
                  ("nonempty-first0", f"{n} >= 1 and self.events[0].tick == 0 and self.resolution >= 1")],
        raises={"ValueError": "tick < 0 or self.events[gov(self, tick)].bpm <= 0"},
        ensures=[("time-is-TS", "result == TS(self, tick)")],
        props=["C01", "C11", "C12", "C15", "C16"],
        clause_props={"must-raise": ["C11", "C15", "C16"]}))

    # ---------------------------------------------------------------- validators
    reg.add(Contract(
        "chartparse.sync:SyncTrack.__post_init__", params=dict(self=S["SyncTrack"]), result=NONE,
        raises={"ValueError": "len(self.time_signature_events) == 0 or self.time_signature_events[0].tick != 0"},
        props=["C15"]))
    reg.add(Contract(
        "chartparse.sync:BPMEvent.__post_init__", params=dict(self=BE), result=NONE,
        raises={"ValueError": "round3(self.bpm) != self.bpm"},
        note="three-decimal validation, stated with the assumed contract of round(x, 3)",
        props=["C08"]))

    # ---------------------------------------------------------------- constructors
    prev_ok = "(prev_event is None or prev_event._proximal_bpm_event_index >= 0)"
    be_pre = [("wf-sorted", "sorted_ticks(bpm_events)"),
              ("nonempty-first0", "len(bpm_events.events) >= 1 and bpm_events.events[0].tick == 0 and bpm_events.resolution >= 1"),
              ("envelope", f"ENV(bpm_events) and -{BIG} <= data.tick <= {BIG}"),
              ("prev-hint-nonneg", prev_ok)]
    hint = "(0 if prev_event is None else prev_event._proximal_bpm_event_index)"
    ts_raises = {"ValueError": f"data.tick < 0 or {hint} > gov(bpm_events, data.tick) or bpm_events.events[gov(bpm_events, data.tick)].bpm <= 0"}
    ts_post = [("tick", "result.tick == data.tick"),
               ("time-is-TS", "result.timestamp == TS(bpm_events, data.tick)"),
               ("index-is-gov", "result._proximal_bpm_event_index == gov(bpm_events, data.tick)"),
               ("index-nonneg", "result._proximal_bpm_event_index >= 0")]
    reg.ts_ctor = dict(be_pre=be_pre, raises=ts_raises, post=ts_post)

    reg.add(Contract(
        "chartparse.sync:BPMEvent.from_parsed_data",
        params=dict(cls=_cls("chartparse.sync:BPMEvent"), data=S["BPMData"], prev_event=OptS(BE), resolution=INT),
        result=BE,
        requires=[("bpm-token", "decok(data.raw_bpm) and 0 <= pyint(data.raw_bpm) <= 10**11"),
                  ("envelope", f"-{BIG} <= data.tick <= {BIG} and resolution <= {BIG} and (prev_event is None or (-{BIG} <= prev_event.tick <= {BIG} and prev_event.bpm <= 10**9 and (prev_event.bpm <= 0 or 1024 * prev_event.bpm >= 1)))")],
        raises={"ValueError": "prev_event is not None and (data.tick <= prev_event.tick or prev_event.bpm <= 0 or resolution <= 0)"},
        ensures=[
            ("tick", "result.tick == data.tick"),
            ("bpm-nearest-float", "result.bpm == RN(pyint(data.raw_bpm) / 1000)"),
            ("bpm-envelope", "result.bpm <= 10**9 and (result.bpm <= 0 or 1024 * result.bpm >= 1) and iff(result.bpm <= 0, pyint(data.raw_bpm) == 0)"),
            ("first", "implies(prev_event is None, result.timestamp == us(0) and result._proximal_bpm_event_index == 0)"),
            ("chain", "implies(prev_event is not None, result.timestamp == prev_event.timestamp + TDF(SEC(data.tick - prev_event.tick, prev_event.bpm, resolution)) and result._proximal_bpm_event_index == prev_event._proximal_bpm_event_index + 1)"),
        ],
        props=["C01", "C08", "C12", "C15", "C11", "C03", "C16"],
        # the decoded tempo value is C08's statement (and the BPM of C01's formula); the timestamp chain is C01/C11/C12/C15's
        clause_props={"bpm-nearest-float": ["C08", "C01"], "first": ["C01", "C03", "C11", "C12", "C15", "C16"],
                      "chain": ["C01", "C03", "C11", "C12", "C15", "C16"], "must-raise": ["C15", "C11", "C03", "C16"]}))
    reg.add(Contract(
        "chartparse.sync:TimeSignatureEvent.from_parsed_data",
        params=dict(cls=_cls("chartparse.sync:TimeSignatureEvent"), data=S["TSData"],
                    prev_event=OptS(S["TimeSignatureEvent"]), bpm_events=BES),
        result=S["TimeSignatureEvent"],
        requires=be_pre + [("exponent-nonneg", "data.lower is None or data.lower >= 0")],
        raises=ts_raises,
        ensures=ts_post + [("upper", "result.upper_numeral == data.upper"),
                           ("lower", "result.lower_numeral == (4 if data.lower is None else pow2(data.lower))")],
        props=["C01", "C08", "C11"],
        clause_props={"upper": ["C08"], "lower": ["C08"], "time-is-TS": ["C01", "C11"], "index-": ["C01", "C11"]}))
    reg.add(Contract(
        "chartparse.sync:AnchorEvent.from_parsed_data",
        params=dict(cls=_cls("chartparse.sync:AnchorEvent"), data=S["AnchorData"]), result=S["AnchorEvent"],
        ensures=[("tick", "result.tick == data.tick"), ("exact-microseconds", "result.timestamp == us(data.microseconds)"),
                 ("index", "result._proximal_bpm_event_index == 0")],
        props=["C08"]))

    # ---------------------------------------------------------------- line decoders
    K = "chartparse.sync:BPMEvent.ParsedData"
    reg.add(Contract(
        f"{K}.from_chart_line", params=dict(cls=_cls(K), line=STR), result=S["BPMData"],
        raises={"RegexNotMatchError": f"not rxm('{K}', line)"},
        ensures=[("tick", f"result.tick == pyint(rxg('{K}', 1, line))"),
                 ("raw-bpm", f"result.raw_bpm == rxg('{K}', 2, line)")],
        props=["C08", "C14", "C18"]))
    K = "chartparse.sync:TimeSignatureEvent.ParsedData"
    reg.add(Contract(
        f"{K}.from_chart_line", params=dict(cls=_cls(K), line=STR), result=S["TSData"],
        raises={"RegexNotMatchError": f"not rxm('{K}', line)"},
        ensures=[("tick", f"result.tick == pyint(rxg('{K}', 1, line))"),
                 ("upper", f"result.upper == pyint(rxg('{K}', 2, line))"),
                 ("lower", f"iff(result.lower is None, rxg_none('{K}', 3, line)) and implies(result.lower is not None, result.lower == pyint(rxg('{K}', 3, line)))")],
        props=["C08", "C14", "C18"]))
    K = "chartparse.sync:AnchorEvent.ParsedData"
    reg.add(Contract(
        f"{K}.from_chart_line", params=dict(cls=_cls(K), line=STR), result=S["AnchorData"],
        raises={"RegexNotMatchError": f"not rxm('{K}', line)"},
        ensures=[("tick", f"result.tick == pyint(rxg('{K}', 1, line))"),
                 ("microseconds", f"result.microseconds == pyint(rxg('{K}', 2, line))")],
        props=["C08", "C14", "C18"]))
    # capture facts proved by rxvc for the shipped patterns (obligation names rx/<class>/group<i>/digits)
    for path, groups in (("chartparse.sync:BPMEvent.ParsedData", (1, 2)),
                         ("chartparse.sync:TimeSignatureEvent.ParsedData", (1, 2, 3)),
                         ("chartparse.sync:AnchorEvent.ParsedData", (1, 2))):
        pat = _cls(path).get()._regex_prog.pattern
        reg.rx_facts.setdefault(pat, []).extend((g, "digits") for g in groups)
