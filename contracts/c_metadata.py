"""Contract for chartparse/metadata.py: Metadata.from_chart_lines (its three local functions are
verified inline; the scan loop carries the sidecar invariant)."""
from pyvc.contract import Contract, LoopSpec
from pyvc.values import STR, SeqS
from pyvc.source import live_module
from .c_sync import _cls

M = "chartparse.metadata:"
INT_FIELDS = ["resolution", "offset", "difficulty", "preview_start", "preview_end"]
DEFAULTS = {"offset": "0", "difficulty": "0", "preview_start": "0", "preview_end": "0", "genre": "'rock'", "media_type": "'cd'"}


def register(reg, S):
    md = live_module("chartparse.metadata")
    fields = list(md._field_parsing_specs)
    L = "lines_iter"
    present = lambda f: f"exists(0, len({L}), lambda k: fieldm('{f}', {L}[k]))"
    first = lambda f, k: f"(fieldm('{f}', {L}[{k}]) and forall(0, {k}, lambda h: not fieldm('{f}', {L}[h])))"
    ens = []
    for f in fields:
        if f in INT_FIELDS:
            val = lambda k, f=f: f"result.{f} == pyint(fieldg('{f}', {L}[{k}]))"
        elif f == "player2":
            val = lambda k, f=f: f"result.{f}.value == fieldg('{f}', {L}[{k}])"
        else:
            val = lambda k, f=f: f"result.{f} == fieldg('{f}', {L}[{k}])"
        ens.append((f"{f}/from-its-first-matching-line", f"forall(0, len({L}), lambda k: implies({first(f, 'k')}, {val('k')}))"))
        if f == "resolution":
            continue
        if f in DEFAULTS:
            dflt = f"result.{f} == {DEFAULTS[f]}"
        elif f == "player2":
            dflt = "result.player2.value == 'bass'"
        else:
            dflt = f"result.{f} is None"
        ens.append((f"{f}/default-when-absent", f"implies(not {present(f)}, {dflt})"))
    ens.append(("resolution/comes-from-a-resolution-line", f"exists(0, len({L}), lambda k: fieldm('resolution', {L}[k]) and result.resolution == pyint(fieldg('resolution', {L}[k])))"))
    for f in INT_FIELDS:
        pat = md._field_parsing_specs[f].regex_prog.pattern
        reg.rx_facts.setdefault(pat, []).append((1, "digits"))
    reg.inline_ok.add("chartparse.exceptions:raise_")
    q = "Metadata.from_chart_lines.<locals>.parse_all_lines_for_field"
    reg.add(Contract(
        M + "Metadata.from_chart_lines",
        params=dict(cls=_cls(M + "Metadata"), lines_iter=SeqS(STR)), result=S["Metadata"],
        raises={"MissingRequiredField": f"not {present('resolution')}"},
        raise_allowed={"ValueError": f"{present('player2')}"},
        ensures=ens,
        loops={(q, 0): LoopSpec(invariants=[("no-earlier-line-matches", "forall(0, _it, lambda k: not fieldm(field_name, lines[k]))")])},
        props=["C10", "C18"]))
