"""Contracts of the three section parsers: <Track>._parse_data_from_chart_lines and
<Track>.from_chart_lines.  They compose the dispatcher's and the builders' contracts; the
intermediate data lists are exposed as ghost results so that the property-level lemmas can talk
about 'the lines of the section'."""
import re as _re

from pyvc.contract import Contract, LoopSpec, Conc, Ghost
from pyvc.values import INT, STR, SeqS, TupS
from .c_sync import _cls, BIG
from .c_track import SECTIONS, dispatcher_clauses, first_is

GH = ["g_src0", "g_src1", "g_src2", "g_at"]
GH_CODE = "\n".join(f"{g} = callee_ghost('{g}')" for g in GH)
GH_SHAPES = {g: SeqS(INT) for g in GH}


def subst(text, mapping):
    for a, b in mapping.items():
        text = _re.sub(r"(?<![\w.])" + _re.escape(a) + r"(?![\w])", b, text)
    return text


def register(reg, S):
    # ------------------------------------------------------------------ _parse_data_from_chart_lines x3
    # order in which each private parser returns the kinds (indices into the dispatcher's tuple)
    ORDER = {"sync": ("chartparse.sync:SyncTrack", [1, 0, 2]),
             "instrument": ("chartparse.instrument:InstrumentTrack", [0, 1, 2]),
             "globalevents": ("chartparse.globalevents:GlobalEventsTrack", [2, 1, 0])}
    for label, (clsp, order) in ORDER.items():
        paths, shapes = SECTIONS[label]
        lists = [None] * 3
        for pos, j in enumerate(order):
            lists[j] = f"result[{pos}]"
        anchor = {"sync": "parsed_data = chartparse.track.parse_data_from_chart_lines((BPMEvent.ParsedData, TimeSignatureEvent.ParsedData, AnchorEvent.ParsedData), lines)",
                  "instrument": "parsed_data = chartparse.track.parse_data_from_chart_lines((NoteEvent.ParsedData, StarPowerEvent.ParsedData, TrackEvent.ParsedData), lines)",
                  "globalevents": "parsed_data = chartparse.track.parse_data_from_chart_lines((LyricEvent.ParsedData, SectionEvent.ParsedData, TextEvent.ParsedData), lines)"}[label]
        reg.add(Contract(
            clsp + "._parse_data_from_chart_lines",
            params=dict(cls=_cls(clsp), lines=SeqS(STR)),
            result=TupS([SeqS(S[shapes[j]]) for j in order]),
            ghost_results=GH_SHAPES,
            ensures=dispatcher_clauses(reg, paths, lists, "len(lines)"),
            ghosts=[Ghost(anchor, GH_CODE)],
            # (tag audit, round 8) which data reach which builder is part of every statement about the
            # events of a section: the note family, the tempo map (C01, C15)
            props=["C07", "C08", "C09", "C14"] + {"sync": ["C01", "C15"], "instrument": ["C02", "C03", "C04", "C05"], "globalevents": []}[label],
            # which kind's list carries which statement (kinds in the order the dispatcher is given them)
            clause_props={"sync": {"kind0": ["C01", "C15", "C08", "C14", "C18"], "kind1": ["C15", "C08", "C14", "C18"], "kind2": ["C08", "C14", "C18"], "conservation": ["C14", "C18"], "positions-length": ["C14", "C18"]},
                          "instrument": {"kind0": ["C02", "C03", "C04", "C05", "C07", "C14", "C18"], "kind1": ["C05", "C07", "C14", "C18"], "kind2": ["C07", "C14", "C18"], "conservation": ["C14", "C18"], "positions-length": ["C14", "C18"]},
                          "globalevents": {}}[label]))

    # ------------------------------------------------------------------ SyncTrack.from_chart_lines
    B, TSK, A = SECTIONS["sync"][0]
    key = "chartparse.track:build_events_from_data"
    res = "resolution_or_bpm_events_or_None"
    bc = reg.by_name(f"{key}[BPMEvent]")
    tc = reg.by_name(f"{key}[TimeSignatureEvent]")
    ac = reg.by_name(f"{key}[AnchorEvent]")
    parse_anchor = "(time_signature_data, bpm_data, anchor_data) = cls._parse_data_from_chart_lines(lines)"
    ghost_data = "g_bpm_data = bpm_data\ng_ts_data = time_signature_data\ng_anchor_data = anchor_data\n" + GH_CODE
    lists = ["g_bpm_data", "g_ts_data", "g_anchor_data"]
    btick = lambda i: f"pyint(rxg('{B}', 1, lines[{i}]))"
    bval = lambda i: f"pyint(rxg('{B}', 2, lines[{i}]))"
    isB = lambda i: first_is([B, TSK, A], 0, f"lines[{i}]")
    isTS = lambda i: first_is([B, TSK, A], 1, f"lines[{i}]")
    tstick = lambda i: f"pyint(rxg('{TSK}', 1, lines[{i}]))"
    tokens = (f"forall(0, len(lines), lambda i: implies(rxm('{B}', lines[i]), {btick('i')} <= {BIG} and {bval('i')} <= 10**11) "
              f"and implies(rxm('{TSK}', lines[i]), {tstick('i')} <= {BIG}))")
    must = [
        ("resolution <= 0"),
        (f"not exists(0, len(lines), lambda i: {isB('i')})"),
        (f"exists(0, len(lines), lambda i: {isB('i')} and {btick('i')} != 0 and not exists(0, i, lambda h: {isB('h')}))"),
        (f"exists(0, len(lines), lambda i: exists(i + 1, len(lines), lambda j: {isB('i')} and {isB('j')} and ({btick('j')} <= {btick('i')} or {bval('i')} == 0)))"),
        (f"not exists(0, len(lines), lambda i: {isTS('i')})"),
        (f"exists(0, len(lines), lambda i: {isTS('i')} and {tstick('i')} != 0 and not exists(0, i, lambda h: {isTS('h')}))"),
    ]
    m_b = {"datas": "g_bpm_data", "result": "result.bpm_events", res: "resolution"}
    m_t = {"datas": "g_ts_data", "result": "result.time_signature_events", res: "result.bpm_events"}
    m_a = {"datas": "g_anchor_data", "result": "result.anchor_events"}
    reg.add(Contract(
        "chartparse.sync:SyncTrack.from_chart_lines",
        params=dict(cls=_cls("chartparse.sync:SyncTrack"), resolution=INT, lines=SeqS(STR)),
        result=S["SyncTrack"],
        ghost_results=dict(GH_SHAPES, g_bpm_data=SeqS(S["BPMData"]), g_ts_data=SeqS(S["TSData"]), g_anchor_data=SeqS(S["AnchorData"])),
        requires=[("tokens-bounded", tokens), ("resolution-bounded", f"resolution <= {BIG}")],
        may_raise=["ValueError"],
        must_raise=must,
        ensures=dispatcher_clauses(reg, [B, TSK, A], lists, "len(lines)")
        + [("bpm/" + n, subst(t, m_b)) for n, t in bc.ensures]
        + [("ts/" + n, subst(t, m_t)) for n, t in tc.ensures]
        + [("anchor/" + n, subst(t, m_a)) for n, t in ac.ensures]
        + [("time-signature-at-tick-0", "len(result.time_signature_events) >= 1 and result.time_signature_events[0].tick == 0")],
        ghosts=[Ghost(parse_anchor, ghost_data)],
        props=["C01", "C08", "C12", "C14", "C15"]))

    # ------------------------------------------------------------------ GlobalEventsTrack.from_chart_lines
    L, SE, T = SECTIONS["globalevents"][0]
    gpaths = [L, SE, T]
    be_pre = [("wf-sorted", "sorted_ticks(bpm_events)"),
              ("nonempty-first0", "len(bpm_events.events) >= 1 and bpm_events.events[0].tick == 0 and bpm_events.resolution >= 1"),
              ("envelope", "ENV(bpm_events)")]
    gtok = "forall(0, len(lines), lambda i: " + " and ".join(
        f"implies(rxm('{p}', lines[i]), pyint(rxg('{p}', 1, lines[i])) <= {BIG})" for p in gpaths) + ")"
    gl = ["g_lyric_data", "g_section_data", "g_text_data"]
    ens = dispatcher_clauses(reg, gpaths, gl, "len(lines)")
    for kind, dlist, field in (("TextEvent", "g_text_data", "text_events"), ("SectionEvent", "g_section_data", "section_events"),
                               ("LyricEvent", "g_lyric_data", "lyric_events")):
        c = reg.by_name(f"{key}[{kind}]")
        ens += [(f"{field}/{n}", subst(t, {"datas": dlist, "result": f"result.{field}", res: "bpm_events"})) for n, t in c.ensures]
    zero_gov = " or ".join(
        f"({first_is(gpaths, j, 'lines[i]')} and bpm_events.events[gov(bpm_events, pyint(rxg('{p}', 1, lines[i])))].bpm <= 0)"
        for j, p in enumerate(gpaths))
    reg.add(Contract(
        "chartparse.globalevents:GlobalEventsTrack.from_chart_lines",
        params=dict(cls=_cls("chartparse.globalevents:GlobalEventsTrack"), lines=SeqS(STR), bpm_events=S["BPMEvents"]),
        result=S["GlobalEventsTrack"],
        ghost_results=dict(GH_SHAPES, g_lyric_data=SeqS(S["LyricData"]), g_section_data=SeqS(S["SectionData"]), g_text_data=SeqS(S["TextData"])),
        requires=be_pre + [("tokens-bounded", gtok)],
        may_raise=["ValueError"],
        must_raise=[f"exists(0, len(lines), lambda i: {zero_gov})"],
        ensures=ens,
        ghosts=[Ghost("(text_data, section_data, lyric_data) = cls._parse_data_from_chart_lines(lines)",
                      "g_text_data = text_data\ng_section_data = section_data\ng_lyric_data = lyric_data\n" + GH_CODE)],
        props=["C01", "C09", "C11", "C14", "C15"]))

    # ------------------------------------------------------------------ InstrumentTrack.from_chart_lines
    N, SP, E = SECTIONS["instrument"][0]
    ipaths = [N, SP, E]
    isN = lambda i: f"rxm('{N}', lines[{i}])"
    ntick = lambda i: f"pyint(rxg('{N}', 1, lines[{i}]))"
    nidx = lambda i: f"pyint(rxg('{N}', 2, lines[{i}]))"
    nlen = lambda i: f"pyint(rxg('{N}', 3, lines[{i}]))"
    itok = (f"forall(0, len(lines), lambda i: implies({isN('i')}, {ntick('i')} <= {BIG} and {nlen('i')} <= {BIG}) "
            f"and implies(rxm('{SP}', lines[i]), pyint(rxg('{SP}', 1, lines[i])) <= {BIG}) "
            f"and implies(rxm('{E}', lines[i]), pyint(rxg('{E}', 1, lines[i])) <= {BIG}))")
    canonical = [
        ("note-lines-sorted-by-tick", f"forall(0, len(lines), lambda i: forall(i + 1, len(lines), lambda j: implies({isN('i')} and {isN('j')}, {ntick('i')} <= {ntick('j')})))"),
        ("one-line-per-index-per-tick", f"forall(0, len(lines), lambda i: forall(i + 1, len(lines), lambda j: implies({isN('i')} and {isN('j')} and {ntick('i')} == {ntick('j')}, {nidx('i')} != {nidx('j')} and {nidx('j')} != 7)))"),
    ]
    il = ["g_note_data", "g_sp_data", "g_track_data"]
    ens = [("labelled", "result.instrument == instrument and result.difficulty == difficulty")]
    ens += dispatcher_clauses(reg, ipaths, il, "len(lines)")
    for kind, dlist, field in (("StarPowerEvent", "g_sp_data", "star_power_events"), ("TrackEvent", "g_track_data", "track_events")):
        c = reg.by_name(f"{key}[{kind}]")
        ens += [(f"{field}/{n}", subst(t, {"datas": dlist, "result": f"result.{field}", res: "bpm_events"})) for n, t in c.ensures]
    nb = reg.by_name("chartparse.instrument:InstrumentTrack._build_note_events_from_data")
    ens += [("notes/" + n, subst(t, {"datas": "g_note_data", "result": "result.note_events", "star_power_events": "result.star_power_events"}))
            for n, t in nb.ensures]
    reg.add(Contract(
        "chartparse.instrument:InstrumentTrack.from_chart_lines",
        params=dict(cls=_cls("chartparse.instrument:InstrumentTrack"), instrument=S["Instrument"], difficulty=S["Difficulty"],
                    lines=SeqS(STR), bpm_events=S["BPMEvents"]),
        result=S["InstrumentTrack"],
        ghost_results=dict(GH_SHAPES, g_note_data=SeqS(S["NoteData"]), g_sp_data=SeqS(S["StarPowerDataLine"]),
                           g_track_data=SeqS(S["TrackData"]), g_lo=SeqS(INT), g_hi=SeqS(INT), g_c=SeqS(INT), g_run=SeqS(INT)),
        requires=be_pre + [("res-range", "1 <= bpm_events.resolution <= 2**50"), ("tokens-bounded", itok)] + canonical,
        may_raise=["ValueError"],
        ensures=ens,
        ghosts=[Ghost("(note_data, star_power_data, track_data) = cls._parse_data_from_chart_lines(lines)",
                      "g_note_data = note_data\ng_sp_data = star_power_data\ng_track_data = track_data\n" + GH_CODE),
                Ghost("note_events = cls._build_note_events_from_data(note_data, star_power_events, bpm_events)",
                      "g_lo = callee_ghost('g_lo')\ng_hi = callee_ghost('g_hi')\ng_c = callee_ghost('g_c')\ng_run = callee_ghost('g_run')")],
        # C01/C12: the tempo map handed to the three builders is the one this function was given
        props=["C02", "C03", "C04", "C05", "C07", "C11", "C13", "C14", "C01", "C12"],
        clause_props={"labelled": ["C06", "C13"], "kind": ["C02", "C03", "C04", "C05", "C07", "C13", "C14"],
                      "positions-length": ["C14", "C13"], "conservation": ["C14", "C13"],
                      "star_power_events/each-event": ["C01", "C05", "C07", "C11", "C12", "C13"],
                      "track_events/each-event": ["C01", "C07", "C11", "C12", "C13"]}))
