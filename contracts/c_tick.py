"""Contracts for chartparse/tick.py and chartparse/time.py."""
from pyvc.contract import Contract, LoopSpec, Conc
from pyvc.values import INT, REAL, TD, UnionS
from pyvc.source import live_module

# numeric envelope inside which the float model (no overflow / underflow) is valid; it contains
# every value allowed by the properties' quantifiers (tokens of at most 8 digits etc.)
BIG = 10**15


def register(reg, S):
    reg.add(Contract(
        "chartparse.tick:add", params=dict(a=INT, b=INT), result=INT,
        ensures=[("sum", "result == a + b")], props=["C03", "C05"]))
    reg.add(Contract(
        "chartparse.tick:between", params=dict(a=INT, b=INT), result=INT,
        ensures=[("absdiff", "result == (a - b if a >= b else b - a)"), ("nonneg", "result >= 0")],
        # (tag audit, round 8: every leaf of the query chain carries the properties of the query itself)
        props=["C01", "C12", "C03", "C11", "C16"]))
    reg.add(Contract(
        "chartparse.tick:seconds_from_ticks_at_bpm",
        params=dict(ticks=INT, bpm=REAL, resolution=INT), result=REAL,
        requires=[("envelope", "-2**52 <= ticks <= 2**52 and resolution <= 2**52 and bpm <= 10**9 and (bpm <= 0 or 1024 * bpm >= 1)")],
        raises={"ValueError": "ticks < 0 or bpm <= 0 or resolution <= 0"},
        defines="SEC(ticks, bpm, resolution)",
        ensures=[
            # S1: relative error of the four roundings against the exact value E = 60 ticks/(bpm res)
            ("S1", "absr(xsub(result, xdiv(60 * ticks, xmul(bpm, resolution)))) <= xmul(xmul(5, U()), xdiv(60 * ticks, xmul(bpm, resolution)))"),
            ("S2", "result >= 0 and implies(ticks == 0, result == 0)"),
        ],
        props=["C01", "C12", "C15", "C03", "C11", "C16"],
        clause_props={"must-raise": ["C15", "C11", "C16"]}))
    reg.add(Contract(
        "chartparse.tick:note_duration_to_ticks", inst="EIGHTH_TRIPLET",
        params=dict(resolution=INT,
                    note_duration=Conc(lambda: live_module("chartparse.tick").NoteDuration.EIGHTH_TRIPLET, "EIGHTH_TRIPLET")),
        result=INT,
        requires=[("res-range", "1 <= resolution <= 2**50")],
        ensures=[("nearest-third", "result == (resolution + 1) // 3")],
        props=["C04"]))
    reg.add(Contract(
        "chartparse.time:add", inst="seconds",
        params=dict(ts=TD, other=REAL), result=TD,
        ensures=[("plus-rounded", "result == ts + TDF(other)")],
        props=["C01", "C12", "C03", "C11", "C16"]))
    reg.add(Contract(
        "chartparse.time:add", inst="timedelta",
        params=dict(ts=TD, other=TD), result=TD,
        ensures=[("plus", "result == ts + other")],
        props=["C01"]))
